"""Batch runner: seeded search over scenarios on all cores, evidence,
known-findings matching, minimisation, replay."""
import concurrent.futures as cf
import copy
import faulthandler
import hashlib
import importlib
import json
import multiprocessing
import os
import random
import signal
import re
import subprocess
import sys
import time
import traceback

VERIF = os.path.dirname(os.path.dirname(os.path.abspath(__file__)))
REPO = os.environ.get('VERIF_REPO', '/repo')

COMPONENTS_REAL = [
    'gemato/*.py (all modules, imported from the working tree of $VERIF_REPO)',
    'kernel filesystem (tmpfs scratch tree) as passive byte/inode store',
]
COMPONENTS_STUB = [
    'wall clock (simulated, discrete), file mtimes (stamped from simulated clock)',
    'directory enumeration order (keyed permutation at the scandir seam)',
    'I/O error and short-read behaviour (fault plan at the seam)',
    "completion order of the loader's worker pool (MultiprocessingPoolWrapper replaced by a one-process pool that permutes imap_unordered results by the run's key; one third of the keys keep the shipped serial wrapper)",
]


RUN_TIMEOUT_S = 120.0


class RunTimeout(BaseException):
    pass


def _on_alarm(signum, frame):
    raise RunTimeout('run exceeded %gs wall' % RUN_TIMEOUT_S)


def subseed(seed, prop, i):
    h = hashlib.sha256(('%d/%s/%d' % (seed, prop, i)).encode()).digest()
    return int.from_bytes(h[:8], 'big')


def load_prop(prop):
    return importlib.import_module('sim.props.' + prop.lower())


def vkey(v):
    return (v['clause'], v.get('sig', ''))


# ------------------------------------------------------------------ workers

def _run_block(args):
    prop, seed, tier, indices, wall_deadline, det_check = args
    faulthandler.dump_traceback_later(3600, exit=True)
    mod = load_prop(prop)
    known = load_known()
    run_timeout = float(os.environ.get('VERIF_RUN_TIMEOUT_S', 0)) or mod.PLAN[tier].get('run_timeout_s', RUN_TIMEOUT_S)
    agg = new_agg()
    for i in indices:
        if time.time() > wall_deadline:
            agg['skipped'] += 1
            continue
        rng = random.Random(subseed(seed, prop, i))
        sc = None
        try:
            signal.signal(signal.SIGALRM, _on_alarm)
            signal.setitimer(signal.ITIMER_REAL, run_timeout)
            sc = mod.generate(rng, tier, i)
            try:
                res = mod.execute(sc)
            except Exception as e1:
                # a harness exception must reproduce to count: one immediate re-execution of the same scenario
                # (real gpg children and per-run alarms are load-sensitive); a deterministic harness bug raises again
                signal.setitimer(signal.ITIMER_REAL, run_timeout)
                res = mod.execute(copy.deepcopy(sc))
                agg['transient_harness_exceptions'].append({'index': i, 'error': ('%s: %s' % (type(e1).__name__, e1))[:300]})
            if i in det_check:
                res2 = mod.execute(copy.deepcopy(sc))
                agg['determinism_pairs'] += 1
                if res2['digest'] != res['digest']:
                    agg['harness_errors'].append(
                        {'index': i, 'error': 'nondeterministic digest %s vs %s' % (res['digest'], res2['digest']), 'scenario': sc})
        except BaseException as e:   # harness bug, not a property violation
            if isinstance(e, (KeyboardInterrupt, SystemExit)):
                raise
            agg['harness_errors'].append(
                {'index': i, 'error': ''.join(traceback.format_exception(type(e), e, e.__traceback__))[-3000:],
                 'scenario': sc})
            continue
        finally:
            signal.setitimer(signal.ITIMER_REAL, 0)
        merge_result(agg, res, sc, i, known, prop)
    faulthandler.cancel_dump_traceback_later()
    _cleanup_peers()
    return agg


def _cleanup_peers():
    g = sys.modules.get('sim.gpgsim')
    if g is not None:
        try:
            g.cleanup_all()
        except Exception:
            pass


def new_agg():
    return {'evaluations': 0, 'digests': set(), 'nontrivial_digests': set(),
            'faults_fired': {}, 'dontcare': {}, 'counters': {},
            'seam_calls': 0, 'sim_ns': 0, 'ops': 0, 'violations': [],
            'harness_errors': [], 'samples': [], 'skipped': 0, 'kf_hits': {},
            'determinism_pairs': 0, 'states': set(), 'transient_harness_exceptions': []}


def _addd(dst, src):
    for k, v in (src or {}).items():
        dst[k] = dst.get(k, 0) + v


def merge_result(agg, res, sc, i, known=(), prop=None):
    agg['evaluations'] += 1
    agg['digests'].add(res['digest'])
    if res.get('nontrivial'):
        agg['nontrivial_digests'].add(res['digest'])
    _addd(agg['faults_fired'], res.get('faults_fired'))
    _addd(agg['dontcare'], res.get('dontcare'))
    _addd(agg['counters'], res.get('counters'))
    agg['seam_calls'] += res.get('seam_calls', 0)
    agg['sim_ns'] += res.get('sim_ns', 0)
    agg['ops'] += res.get('ops', 0)
    for s in res.get('states', ()):
        agg['states'].add(s)
    if len(agg['samples']) < 2 and res.get('nontrivial'):
        agg['samples'].append({'index': i, 'scenario': sc, 'outcome': res.get('outcome')})
    for v in res.get('violations', []):
        # classify in the worker: instances explained by an open known finding are counted, not stored,
        # so that they can never crowd an unexplained violation of the same clause out of the record
        scv = dict(sc, **v['scenario_patch']) if v.get('scenario_patch') else sc
        kfs = [k for k in known if kf_match(k, prop, v, scv)]
        if kfs:
            agg['kf_hits'][kfs[0]['id']] = agg['kf_hits'].get(kfs[0]['id'], 0) + 1
            agg['counters']['runs_explained_by_known_findings'] = agg['counters'].get('runs_explained_by_known_findings', 0) + 1
            continue
        if len(agg['violations']) < 12:
            agg['violations'].append({'index': i, 'scenario': sc, 'violation': v,
                                      'digest': res['digest']})
        agg['counters']['violating_runs'] = agg['counters'].get('violating_runs', 0) + 1
        break


def merge_agg(a, b):
    a['evaluations'] += b['evaluations']
    a['digests'] |= b['digests']
    a['nontrivial_digests'] |= b['nontrivial_digests']
    a['states'] |= b['states']
    for k in ('faults_fired', 'dontcare', 'counters', 'kf_hits'):
        _addd(a[k], b[k])
    for k in ('seam_calls', 'sim_ns', 'ops', 'skipped', 'determinism_pairs'):
        a[k] += b[k]
    # keep at most 60 recorded instances per (clause, signature); all are counted in counters
    cnt = a.setdefault('_vcount', {})
    for item in b['violations']:
        k = vkey(item['violation'])
        cnt[k] = cnt.get(k, 0) + 1
        if cnt[k] <= 60:
            a['violations'].append(item)
    a['harness_errors'] += b['harness_errors'][:20]
    a['transient_harness_exceptions'] = (a.get('transient_harness_exceptions', []) + b.get('transient_harness_exceptions', []))[:20]
    if len(a['samples']) < 3:
        a['samples'] += b['samples'][:3 - len(a['samples'])]


# --------------------------------------------------------------- known findings

def load_known():
    p = os.path.join(VERIF, 'known_findings.json')
    try:
        with open(p) as f:
            return json.load(f)['findings']
    except FileNotFoundError:
        return []


def kf_match(kf, prop, v, sc):
    if kf.get('status') != 'open':
        return False
    if prop not in kf.get('properties', [kf.get('property')]):
        return False
    if kf.get('clause') and kf['clause'] != v['clause']:
        return False
    if kf.get('clauses') and v['clause'] not in kf['clauses']:
        return False
    if kf.get('sig') and not re.search(kf['sig'], v.get('sig', '')):
        return False
    pred = kf.get('predicate')
    if pred:
        from sim import kf_predicates
        fn = getattr(kf_predicates, pred['name'])
        try:
            if not fn(sc, v, **pred.get('args', {})):
                return False
        except Exception:
            return False
    return True


# ------------------------------------------------------------------ minimiser

def _paths_of_lists(obj, prefix=()):
    out = []
    if isinstance(obj, dict):
        for k in sorted(obj):
            out += _paths_of_lists(obj[k], prefix + (k,))
    elif isinstance(obj, list):
        out.append(prefix)
        for i, x in enumerate(obj):
            out += _paths_of_lists(x, prefix + (i,))
    return out


def _get(obj, path):
    for k in path:
        obj = obj[k]
    return obj


def minimise(mod, sc, key, budget_s=45, max_exec=1500, known=(), prop=None):
    """Clause-preserving reduction of the scenario: delete list elements
    (chunks first), then simplify scalars the property module names."""
    t0 = time.time()
    nexec = [0]

    def fails(c):
        if time.time() - t0 > budget_s or nexec[0] >= max_exec:
            return False
        nexec[0] += 1
        try:
            r = mod.execute(c)
        except BaseException:
            return False
        # the same clause must fail AND must not be explained by a known finding
        return any(vkey(v) == key and not any(kf_match(k, prop, v, c) for k in known)
                   for v in r.get('violations', []))

    cur = copy.deepcopy(sc)
    protect = set(getattr(mod, 'NO_SHRINK', ()))
    changed = True
    while changed and time.time() - t0 < budget_s:
        changed = False
        for path in _paths_of_lists(cur):
            if any(isinstance(k, str) and k in protect for k in path):
                continue
            try:
                lst = _get(cur, path)
            except (KeyError, IndexError, TypeError):
                continue
            if not isinstance(lst, list) or not lst:
                continue
            n = len(lst)
            chunk = n
            while chunk >= 1:
                i = 0
                while i < len(lst):
                    cand = copy.deepcopy(cur)
                    l2 = _get(cand, path)
                    del l2[i:i + chunk]
                    if fails(cand):
                        cur = cand
                        lst = _get(cur, path)
                        changed = True
                    else:
                        i += chunk
                chunk //= 2
        simp = getattr(mod, 'simplify', None)
        if simp is not None:
            for cand in simp(cur):
                if fails(cand):
                    cur = cand
                    changed = True
    return cur, nexec[0]


# ------------------------------------------------------------------ replay

def write_replay(prop, seed, item, sc_min, violation, digest, extra=None):
    d = os.path.join(VERIF, 'replays')
    os.makedirs(d, exist_ok=True)
    name = '%s-%d-%d-%s.json' % (prop, seed, item['index'],
                                 hashlib.sha256(repr(vkey(violation)).encode()).hexdigest()[:8])
    p = os.path.join(d, name)
    with open(p, 'w') as f:
        json.dump({'property': prop, 'seed': seed, 'index': item['index'],
                   'violation': violation, 'digest': digest,
                   'scenario': sc_min, 'original_scenario': item['scenario'],
                   'extra': extra or {}}, f, indent=1, sort_keys=True)
    return p


def replay(prop, path):
    mod = load_prop(prop)
    with open(path) as f:
        rp = json.load(f)
    sc = rp['scenario']
    res = mod.execute(copy.deepcopy(sc))
    res2 = mod.execute(copy.deepcopy(sc))
    print('replay %s digest=%s (recorded %s) second-run digest=%s' % (
        path, res['digest'], rp.get('digest'), res2['digest']))
    print('outcome:', json.dumps(res.get('outcome'), default=str)[:2000])
    want = rp.get('violation')
    known = load_known()
    rc = 0
    for v in res.get('violations', []):
        kfs = [k for k in known if kf_match(k, prop, v, sc)]
        if kfs:
            print('KNOWN-FINDING: property=%s %s' % (prop, kfs[0]['what']))
            continue
        print('violated clause: %s sig=%s detail=%s' % (v['clause'], v.get('sig'), v.get('detail')))
        print('VIOLATION property=%s replay=%s' % (prop, path))
        rc = 1
    if res['digest'] != res2['digest']:
        if rc == 1:
            # the first execution in this (fresh) process shows the violation; the second differs: state survives between
            # calls inside the code under test (a process-wide cache, say) - part of the finding, not a reason to drop it.
            # Determinism of the replay is still decided across interpreters (same digest under two hash seeds)
            print('NOTE: a second execution in the same process gives another event log (%s): state is kept across calls' % res2['digest'])
            return rc
        print('HARNESS-ERROR: replay is not deterministic')
        return 2
    if rc == 0 and want:
        print('recorded violation does not reproduce on this tree')
    return rc


def _replay_fresh(prop, path, hashseed):
    env = dict(os.environ)
    env['PYTHONHASHSEED'] = str(hashseed)
    env['VERIF_NO_REEXEC'] = '1'
    p = subprocess.run([sys.executable, os.path.join(VERIF, 'sim', 'main.py'), prop, '--replay', path],
                       env=env, capture_output=True, text=True, timeout=600)
    m = re.search(r'digest=(\w+)', p.stdout)
    return p.returncode, (m.group(1) if m else None), p.stdout


# ------------------------------------------------------------------ main batch

def run_check(prop, tier, seed, n=None, jobs=None, budget_s=None, verbose=False):
    t0 = time.time()
    mod = load_prop(prop)
    plan = mod.PLAN[tier]
    n = n or int(os.environ.get('VERIF_N', 0)) or plan['n']
    budget_s = budget_s or float(os.environ.get('VERIF_BUDGET_S', 0)) or plan['budget_s']
    jobs = jobs or int(os.environ.get('VERIF_JOBS', 0)) or min(16, os.cpu_count() or 1)
    print('seed=%d property=%s tier=%s n=%d jobs=%d budget_s=%g repo=%s' % (
        seed, prop, tier, n, jobs, budget_s, REPO))
    sys.stdout.flush()
    known = load_known()
    agg = new_agg()
    kf_hit = {}
    shared_home = None
    if getattr(mod, 'NEEDS_GPG', False) and not os.environ.get('VERIF_SIGNER_HOME'):
        # one signer keyring (and one gpg-agent) for the whole batch, removed at the end
        from sim import gpgsim
        shared_home = gpgsim.signer_home()
        os.environ['VERIF_SIGNER_HOME'] = shared_home
    try:
        return _run_check_inner(prop, tier, seed, mod, plan, n, jobs, budget_s, known, agg, kf_hit, t0)
    finally:
        if shared_home is not None:
            os.environ.pop('VERIF_SIGNER_HOME', None)
        _cleanup_peers()


def _run_check_inner(prop, tier, seed, mod, plan, n, jobs, budget_s, known, agg, kf_hit, t0):

    # 1. replays of open known findings of this property (always executed)
    for kf in known:
        if kf.get('status') == 'open' and prop in kf.get('replay_for', [kf.get('property')]) and kf.get('replay'):
            rp = os.path.join(VERIF, kf['replay'])
            try:
                with open(rp) as f:
                    sc = json.load(f)['scenario']
                res = mod.execute(copy.deepcopy(sc))
            except Exception as e:
                print('NOTE: known finding %s replay could not be executed: %r' % (kf['id'], e))
                continue
            hit = [v for v in res.get('violations', []) if kf_match(kf, prop, v, sc)]
            if hit:
                kf_hit[kf['id']] = kf_hit.get(kf['id'], 0) + 1
            else:
                print('NOTE: known finding %s no longer reproduces from its replay file' % kf['id'])
            others = [v for v in res.get('violations', []) if not any(kf_match(k, prop, v, sc) for k in known)]
            for v in others:
                agg['violations'].append({'index': -1, 'scenario': sc, 'violation': v, 'digest': res['digest']})

    # 2. the seeded batch
    blk = plan.get('block', 20)
    det = set(range(min(plan.get('det', 5), n)))
    deadline = t0 + budget_s
    blocks = [list(range(i, min(i + blk, n))) for i in range(0, n, blk)]
    tasks = [(prop, seed, tier, b, deadline, det & set(b)) for b in blocks]
    harness_fail = None
    if jobs == 1:
        for t in tasks:
            merge_agg(agg, _run_block(t))
    else:
        ctx = multiprocessing.get_context('fork')
        with cf.ProcessPoolExecutor(max_workers=jobs, mp_context=ctx) as ex:
            futs = [ex.submit(_run_block, t) for t in tasks]
            try:
                for fu in cf.as_completed(futs, timeout=budget_s + 300):
                    merge_agg(agg, fu.result())
            except Exception as e:
                harness_fail = 'worker pool failure: %r' % (e,)
                for fu in futs:
                    fu.cancel()
    wall_batch = time.time() - t0
    _addd(kf_hit, agg['kf_hits'])

    # 3. classify violations
    groups = {}
    for item in agg['violations']:
        v = item['violation']
        if v.get('scenario_patch'):
            item['scenario'] = dict(item['scenario'], **v['scenario_patch'])
        kfs = [k for k in known if kf_match(k, prop, v, item['scenario'])]
        if kfs:
            kf_hit[kfs[0]['id']] = kf_hit.get(kfs[0]['id'], 0) + 1
            continue
        groups.setdefault(vkey(v), []).append(item)

    for kf in known:
        if kf['id'] in kf_hit:
            print('KNOWN-FINDING: property=%s %s' % (prop, kf['what']))

    if len(groups) > 4 or os.environ.get('VERIF_LIST_SIGS'):
        print('violation groups (clause, signature): count')
        for key, items in sorted(groups.items()):
            print('  %s | %s : %d (e.g. index %d)' % (key[0], key[1], len(items), items[0]['index']))
    rc = 0
    reported = []
    unreproducible = []
    for key, items in sorted(groups.items())[:4]:
        item = items[0]
        sc_min, nexec = minimise(mod, item['scenario'], key,
                                 budget_s=plan.get('min_budget_s', 40), known=known, prop=prop)
        res = mod.execute(copy.deepcopy(sc_min))
        vs = [v for v in res.get('violations', []) if vkey(v) == key]
        if not vs:
            sc_min = item['scenario']
            res = mod.execute(copy.deepcopy(sc_min))
            vs = [v for v in res.get('violations', []) if vkey(v) == key]
        if not vs:
            # one-off that a re-execution of the very same scenario does not show: something outside the
            # simulation (machine load on the real tmpfs / gpg-agent) interfered.  Not believed, not hidden.
            print('NOTE: a %r outcome at index %d did not reproduce when the same scenario was executed again; '
                  'discarded as a transient of the real components (counted in evidence)' % (key, item['index']))
            unreproducible.append({'index': item['index'], 'clause': key[0], 'sig': key[1]})
            continue
        path = write_replay(prop, seed, item, sc_min, vs[0], res['digest'],
                            extra={'minimiser_executions': nexec, 'runs_with_this_violation': len(items)})
        # replay in a fresh interpreter, twice, other hash seed
        rc1, d1, out1 = _replay_fresh(prop, path, 0)
        rc2, d2, out2 = _replay_fresh(prop, path, 4242)
        if rc1 != 1 or rc2 != 1 or d1 != d2:
            harness_fail = 'replay %s not reproducible in fresh interpreter (rc %s/%s digests %s/%s)' % (path, rc1, rc2, d1, d2)
            print(out1[-1500:])
            continue
        print('violated clause: %s sig=%s' % key)
        print('  detail: %s' % (vs[0].get('detail'),))
        print('  runs with this violation in the batch: %d; minimised with %d executions' % (len(items), nexec))
        print('VIOLATION property=%s replay=%s' % (prop, path))
        reported.append(path)
        rc = 1

    for he in agg['harness_errors'][:3]:
        print('HARNESS-ERROR in run index %s:\n%s' % (he['index'], he['error']))
    if agg['harness_errors']:
        harness_fail = harness_fail or ('%d runs raised inside the harness' % len(agg['harness_errors']))
    for te in agg.get('transient_harness_exceptions', [])[:3]:
        print('NOTE: run index %s raised inside the harness once (%s) and ran cleanly when re-executed' % (te['index'], te['error'][:160]))
    if agg['skipped']:
        print('NOTE: %d runs skipped because the wall budget (%gs) ran out' % (agg['skipped'], budget_s))
    if agg['evaluations'] == 0:
        harness_fail = harness_fail or 'no runs executed'

    wall = time.time() - t0
    ev = {
        'property_id': prop, 'tier': tier, 'seed': seed, 'level': mod.LEVEL,
        'wall_s': round(wall, 3), 'violations': len(groups),
        'coverage': {
            'evaluations': agg['evaluations'],
            'distinct_nontrivial': len(agg['nontrivial_digests']),
            'distinct_event_logs': len(agg['digests']),
            'rule': mod.RULE,
            'samples': agg['samples'][:3] or [{'note': 'no nontrivial run'}],
            'runs_per_hour': int(agg['evaluations'] / max(wall_batch, 1e-6) * 3600),
            'system_operations': agg['ops'],
            'seam_calls': agg['seam_calls'],
            'simulated_seconds': round(agg['sim_ns'] / 1e9, 3),
            'faults_fired': dict(sorted(agg['faults_fired'].items())),
            'dontcare_by_zone': dict(sorted(agg['dontcare'].items())),
            'counters': dict(sorted(agg['counters'].items())),
            'determinism_pairs': agg['determinism_pairs'],
            'known_findings_hit': kf_hit,
            'skipped_for_budget': agg['skipped'],
            'components_real': COMPONENTS_REAL + list(getattr(mod, 'COMPONENTS_REAL', [])),
            'components_stubbed': COMPONENTS_STUB + list(getattr(mod, 'COMPONENTS_STUB', [])),
            'replays': reported,
            'unreproducible_transients': unreproducible,
            'transient_harness_exceptions': agg.get('transient_harness_exceptions', []),
            'exhaustive': False,
        },
        'assumptions': list(getattr(mod, 'ASSUMPTIONS', [])),
    }
    if agg['states']:
        ev['coverage']['states'] = len(agg['states'])
        ev['coverage']['states_reached'] = sorted(agg['states'])
    post = getattr(mod, 'post_batch', None)
    if post is not None:
        msg = post(ev, agg, tier)
        if msg:
            harness_fail = harness_fail or msg
    # the committed evidence describes the registered command on /repo itself: runs against a scratch copy (mutants,
    # refactors) or with overridden sizes write theirs next to the replays instead
    ev_dir = os.path.join(VERIF, 'evidence')
    if os.path.realpath(REPO) != '/repo' or n != plan['n'] or os.environ.get('VERIF_RUN_TIMEOUT_S') or \
            os.environ.get('VERIF_POOL') == '0':
        ev_dir = os.path.join(VERIF, 'replays', 'evidence-scratch')
    os.makedirs(ev_dir, exist_ok=True)
    with open(os.path.join(ev_dir, prop + '.json'), 'w') as f:
        json.dump(ev, f, indent=1, sort_keys=True, default=str)
    print('evaluations=%d distinct_nontrivial=%d wall=%.1fs runs/h=%d faults=%s' % (
        agg['evaluations'], len(agg['nontrivial_digests']), wall,
        ev['coverage']['runs_per_hour'], sum(agg['faults_fired'].values())))
    c = ev['coverage']['counters']
    if c:
        print('counters: ' + ' '.join('%s=%s' % kv for kv in sorted(c.items())))
    if ev['coverage']['dontcare_by_zone']:
        print('dontcare: ' + ' '.join('%s=%s' % kv for kv in sorted(ev['coverage']['dontcare_by_zone'].items())))
    if rc == 1:
        return 1
    if harness_fail:
        print('HARNESS-ERROR: ' + harness_fail)
        return 2
    if len(agg['nontrivial_digests']) < 2:
        print('HARNESS-ERROR: fewer than 2 distinct nontrivial runs')
        return 2
    print('OK property=%s held on everything explored' % prop)
    return 0
