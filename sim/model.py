"""Reference models (oracles).  Independent of gemato: they read the real
store with the un-patched os functions, parse Manifests with M-grammar and
hash with hashlib."""
import errno
import hashlib
import os
import stat

from . import grammar as G
from .seam import orig as _o

COMPAT_TAGS = ('MANIFEST', 'DATA', 'EBUILD', 'AUX')


def psw(path, prefix):
    """component-wise 'path starts with prefix'"""
    prefix = prefix.rstrip('/')
    if prefix == '':
        return True
    return path == prefix or path.startswith(prefix + '/')


def pjoin(a, b):
    return b if not a else a + '/' + b


class FileInfo:
    __slots__ = ('exists', 'kind', 'size', 'mtime', 'data', 'dev', 'err', 'ino', 'mtime_ns')

    def __init__(self):
        self.exists = False
        self.kind = None
        self.size = None
        self.mtime = None
        self.mtime_ns = None
        self.data = None
        self.dev = None
        self.ino = None
        self.err = None


def probe(path, want_data=True):
    """What an honest observer sees at path (following symlinks)."""
    fi = FileInfo()
    try:
        st = _o['os.stat'](path)
    except FileNotFoundError:
        return fi
    except ValueError:
        return fi      # (embedded NUL: no such path can exist)
    except NotADirectoryError:
        fi.err = 'ENOTDIR'
        return fi
    except OSError as e:
        fi.err = e.errno
        return fi
    fi.exists = True
    fi.dev = st.st_dev
    fi.ino = st.st_ino
    m = st.st_mode
    fi.kind = ('file' if stat.S_ISREG(m) else 'dir' if stat.S_ISDIR(m) else 'special')
    if fi.kind == 'file':
        fi.size = st.st_size
        fi.mtime = st.st_mtime
        fi.mtime_ns = st.st_mtime_ns
        if want_data:
            with _o['open'](path, 'rb') as f:
                fi.data = f.read()
    return fi


def entry_matches(fi, e):
    """reason string if the file does not match entry e, else None"""
    if not fi.exists:
        return 'missing'
    if fi.kind != 'file':
        return 'type'
    if len(fi.data) != e['size']:
        return 'size'
    for h, v in e['sums'].items():
        hn = G.HASHLIB_NAME.get(h)
        if hn is None or hn not in hashlib.algorithms_available:
            return 'unsupported-hash'
        if hashlib.new(hn, fi.data).hexdigest() != v:
            return 'digest:' + h
    return None


class Verdict:
    def __init__(self):
        self.kind = 'OK'          # OK MISMATCH CHAIN INCOMPATIBLE FAIL-ANY DONTCARE
        self.offending = {}       # path -> reason
        self.maybe = {}           # path -> reason (either verdict acceptable: mtime shortcut)
        self.chain = []           # sub-Manifest paths that fail their entry
        self.zones = []
        self.entries = {}
        self.manifests = {}
        self.walked_files = []
        self.notes = []
        self.oserr = set()
        self.unsupported = False
        self.bad_refs = set()     # Manifest files for which some accepted Manifest holds a MANIFEST entry that does not match
        self.chain_why = {}
        self.chain_holders = {}   # broken link -> Manifests holding the entries it fails
        self.chain_uncomputable = set()   # broken links whose failing entries only carry hashes that cannot be computed here
        self.partial = set()      # broken links that DO match the entry of one accepted parent Manifest and fail another's

    def as_dict(self):
        return {'kind': self.kind, 'offending': dict(sorted(self.offending.items())),
                'maybe': dict(sorted(self.maybe.items())), 'chain': self.chain,
                'zones': sorted(set(self.zones))}


def discovery_obstacle(root, sub):
    """True if a directory strictly between root and sub (inclusive of sub)
    holds a file named Manifest that upward discovery would trip over:
    unparseable, or IGNOREing the start path.  (Discovery itself is C15.)"""
    d = sub
    while d:
        p = os.path.join(root, d, 'Manifest')
        if os.path.lexists(p):
            fi = probe(p)
            if not fi.exists or fi.kind != 'file':
                return True
            try:
                ents = G.parse(G.strip_signature(fi.data.decode('utf8'))[0])
            except Exception:
                return True
            rel = os.path.relpath(sub, d)
            for e in ents:
                if e['tag'] == 'IGNORE' and (rel == '.' and False or psw(rel if rel != '.' else '', e['path'])):
                    return True
        d = os.path.dirname(d)
    return False


class Model:
    def __init__(self, root, top_name='Manifest', devmap=None):
        self.root = root
        self.top = top_name
        self.devmap = devmap
        self.trailing = set()     # compressed Manifests with bytes after their first complete stream

    def _p(self, rel):
        return os.path.join(self.root, rel) if rel else self.root

    def read_manifest(self, rel):
        """-> (entries or None if unparseable, raw bytes)"""
        with _o['open'](self._p(rel), 'rb') as f:
            raw = f.read()
        try:
            text = G.decompress(raw, G.comp_of(rel)).decode('utf8')
            # text files are read with universal newlines: a lone CR ends a line too
            text = text.replace('\r\n', '\n').replace('\r', '\n')
            text, signed = G.strip_signature(text)
            return G.parse(text), raw
        except Exception:
            if G.comp_of(rel) in ('bz2', 'lzma', 'xz') and G.lenient_decompresses(raw, G.comp_of(rel)):
                # one complete stream followed by other bytes: the stdlib file readers ignore the tail, the strict
                # reading does not; whether such a file "is" the Manifest it starts with is nobody's statement
                self.trailing.add(rel)
            return None, raw

    def load_chain(self, subpath, v, recursive=True):
        """Follow MANIFEST entries from the top for everything that can apply
        to subpath (and, if recursive, lies beneath it)."""
        loaded = {}
        fi0 = probe(self._p(self.top), want_data=False)
        if not fi0.exists or fi0.kind != 'file':
            v.kind = 'FAIL-ANY'
            v.notes.append('top-level missing or not a regular file')
            return loaded
        try:
            ents, raw = self.read_manifest(self.top)
        except OSError:
            v.kind = 'FAIL-ANY'
            v.notes.append('top-level unreadable')
            return loaded
        if ents is None:
            v.kind = 'FAIL-ANY'
            v.notes.append('top-level unparseable')
            return loaded
        loaded[self.top] = ents
        # pass by pass: a sub-Manifest is accepted only if it matches EVERY MANIFEST entry
        # that the Manifests accepted so far hold for it
        while True:
            cand = {}
            holders = {}
            for mp in list(loaded):
                mdir = os.path.dirname(mp)
                for e in loaded[mp]:
                    if e['tag'] != 'MANIFEST':
                        continue
                    full = pjoin(mdir, e['path'])
                    if full == mp or full in loaded or full in v.chain:
                        continue
                    sd = os.path.dirname(full)
                    if not (psw(subpath, sd) or (recursive and psw(sd, subpath))):
                        continue
                    cand.setdefault(full, []).append(e)
                    holders.setdefault(full, []).append(mp)
            if not cand:
                break
            for full in sorted(cand):
                fi = probe(self._p(full))
                if fi.err == 'ENOTDIR':
                    v.zones.append('manifest-beneath-file')
                    v.chain.append(full)
                    continue
                if fi.err is not None:
                    v.oserr.add(errno.errorcode.get(fi.err, str(fi.err)))
                whys_all = [entry_matches(fi, e) for e in cand[full]]
                whys = [w_ for w_ in whys_all if w_ is not None]
                if whys:
                    v.chain.append(full)
                    v.chain_why[full] = whys[0]
                    v.chain_holders[full] = [h for h, w_ in zip(holders[full], whys_all) if w_ is not None]
                    if all(w_ == 'unsupported-hash' for w_ in whys):
                        v.chain_uncomputable.add(full)
                    if len(whys) < len(cand[full]):
                        v.partial.add(full)
                    continue
                sub, raw = self.read_manifest(full)
                if sub is None:
                    v.chain.append(full)
                    v.zones.append('registered-manifest-unparseable')
                    continue
                loaded[full] = sub
        for ents in loaded.values():
            for e in ents:
                for h in e.get('sums', {}):
                    if G.HASHLIB_NAME.get(h) not in hashlib.algorithms_available:
                        v.unsupported = True
        # references that arrive after their Manifest was accepted (second MANIFEST entry in a Manifest loaded
        # later): whether they are compared at load time depends on the order of earlier calls on the loader
        for mp, ents in loaded.items():
            md = os.path.dirname(mp)
            for e in ents:
                if e['tag'] == 'MANIFEST':
                    full = pjoin(md, e['path'])
                    if full in loaded and entry_matches(probe(self._p(full)), e) is not None:
                        v.bad_refs.add(full)
        return loaded

    def merged_entries(self, loaded, subpath, v):
        """full path -> merged entry dict; sets v.kind on incompatibility"""
        out = {}
        # deepest Manifests first, like any reasonable reader; order only
        # matters for which conflict is named
        for mp in sorted(loaded, key=lambda k: (-len(os.path.dirname(k)), k)):
            mdir = os.path.dirname(mp)
            for e in loaded[mp]:
                t = e['tag']
                if t in ('DIST', 'TIMESTAMP'):
                    continue
                full = os.path.normpath(pjoin(mdir, e['path']))
                if full.startswith('../') or full == '..' or full.startswith('/'):
                    v.zones.append('entry-outside-tree')
                    continue
                if os.path.normpath(e['path']) != e['path'] or '\x00' in e['path']:
                    # trailing slash, ./ prefix, doubled slashes, embedded NUL: the statement is about
                    # path components, not about non-normalised spellings of them
                    v.zones.append('non-normalised-entry-path')
                    v.kind = 'DONTCARE'
                    continue
                if not psw(full, subpath):
                    continue
                if full not in out:
                    ne = dict(e)
                    ne['sums'] = dict(e.get('sums', {}))
                    ne['path'] = full
                    out[full] = ne
                    continue
                o = out[full]
                if o['tag'] != t:
                    if o['tag'] not in COMPAT_TAGS or t not in COMPAT_TAGS:
                        if 'IGNORE' in (o['tag'], t) and 'MISC' not in (o['tag'], t):
                            v.kind = 'INCOMPATIBLE'
                        elif 'MISC' in (o['tag'], t) and 'IGNORE' not in (o['tag'], t):
                            v.zones.append('dup-misc-vs-other-tag')
                            v.kind = 'DONTCARE'
                        else:
                            v.kind = 'INCOMPATIBLE'
                        continue
                if t == 'IGNORE':
                    continue
                if o['size'] != e['size']:
                    v.kind = 'INCOMPATIBLE'
                    continue
                for h, val in e['sums'].items():
                    if h in o['sums'] and o['sums'][h] != val:
                        v.kind = 'INCOMPATIBLE'
                    o['sums'].setdefault(h, val)
        return out

    def walk(self, subpath, entries, v):
        """Returns list of (relpath, kindclass) for every non-hidden non-dir
        name reachable from subpath, pruning at IGNOREd / listed dirs."""
        files = []
        start = self._p(subpath)
        st = probe(start, want_data=False)
        if not st.exists or st.kind != 'dir':
            v.zones.append('subpath-not-a-directory')
            return files
        stack = [(subpath, [(st.dev, st.ino)])]
        while stack:
            d, anc = stack.pop()
            try:
                names = sorted(_o['os.listdir'](self._p(d)))
            except OSError:
                v.zones.append('unlistable-directory')
                continue
            for n in names:
                if n.startswith('.'):
                    continue
                rel = pjoin(d, n)
                fi = probe(self._p(rel), want_data=False)
                if fi.exists and fi.kind == 'dir':
                    e = entries.get(rel)
                    if e is not None:
                        continue     # IGNOREd or listed as a file: not entered
                    ident = (fi.dev, fi.ino)
                    if ident in anc:
                        v.zones.append('symlink-loop')
                        v.loop = True
                        continue
                    stack.append((rel, anc + [ident]))
                else:
                    files.append((rel, fi))
        return files

    def verdict(self, subpath='', last_mtime=None):
        v = self._verdict(subpath, last_mtime)
        if self.trailing:
            v.zones.append('compressed-manifest-with-trailing-data')
            v.kind = 'DONTCARE'
        return v

    def _verdict(self, subpath='', last_mtime=None):
        v = Verdict()
        v.loop = False
        loaded = self.load_chain(subpath, v)
        v.manifests = loaded
        if v.kind == 'FAIL-ANY':
            return v
        if v.chain:
            v.kind = 'CHAIN'
            return v
        entries = self.merged_entries(loaded, subpath, v)
        v.entries = entries
        if v.kind in ('INCOMPATIBLE', 'DONTCARE'):
            return v
        # zone: verifying at/under an IGNORE, or entries under an IGNOREd path
        ignores = [p for p, e in entries.items() if e['tag'] == 'IGNORE']
        all_ign = []
        for mp, ents in loaded.items():
            for e in ents:
                if e['tag'] == 'IGNORE':
                    all_ign.append(os.path.normpath(pjoin(os.path.dirname(mp), e['path'])))
        if subpath and any(psw(subpath, i) for i in all_ign):
            v.zones.append('subpath-under-ignore')
            v.kind = 'DONTCARE'
            return v
        for p, e in entries.items():
            if e['tag'] != 'IGNORE' and any(p != i and psw(p, i) for i in ignores):
                v.zones.append('entry-under-ignore')
                v.kind = 'DONTCARE'
                return v
            if e['tag'] == 'IGNORE' and any(p != i and psw(p, i) for i in ignores):
                pass
        files = self.walk(subpath, entries, v)
        if 'subpath-not-a-directory' in v.zones:
            v.kind = 'DONTCARE'
            return v
        walked = set()
        for rel, fi in files:
            walked.add(rel)
            if subpath == '' and rel == self.top:
                continue
            if os.path.dirname(rel) == '' and rel == self.top:
                continue
            e = entries.get(rel)
            if e is None:
                # stray unless it does not "exist" for an opener (dangling link)
                if fi.exists:
                    v.offending[rel] = 'stray'
                elif fi.err not in (None,):
                    v.offending[rel] = 'stray?'
                    v.oserr.add(fi.err if fi.err == 'ENOTDIR' else errno.errorcode.get(fi.err, str(fi.err)))
                continue
        # every listed entry is checked, walked or not
        for p, e in entries.items():
            if e['tag'] == 'IGNORE':
                continue
            fi = probe(self._p(p))
            if fi.err == 'ENOTDIR':
                v.zones.append('entry-beneath-file')
                v.enotdir = True
                v.offending[p] = 'beneath-file'
                continue
            if fi.err is not None:
                v.zones.append('probe-error')
                v.offending[p] = 'error'
                v.oserr.add(errno.errorcode.get(fi.err, str(fi.err)))
                continue
            hidden = any(c.startswith('.') for c in p.split('/'))
            if hidden:
                v.zones.append('listed-hidden-path')
            why = None
            if not fi.exists:
                why = 'missing'
            elif fi.kind != 'file':
                why = 'type'
            elif fi.size != e['size'] and fi.size != 0:
                why = 'size'
            else:
                why = entry_matches(fi, e)
                if why is not None and last_mtime is not None and fi.size != 0 \
                        and fi.mtime <= last_mtime:
                    # not newer than the last verification and st_size
                    # unchanged: *may* be skipped
                    v.maybe[p] = why
                    v.zones.append('mtime-shortcut')
                    why = None
            if why is not None:
                v.offending[p] = why
        if v.offending:
            v.kind = 'MISMATCH'
        if getattr(v, 'loop', False):
            v.kind = 'LOOP'
        v.walked_files = sorted(walked)
        return v


# ----------------------------------------------------------------------------
# M-audit: does the Manifest tree on disk describe the directory exactly?

FILE_TAGS = ('DATA', 'MISC', 'EBUILD', 'AUX', 'MANIFEST')


def logical_name(p):
    c = G.comp_of(p)
    return p[:-(len(c) + 1)] if c else p


class Audit:
    def __init__(self):
        self.problems = []      # (code, path, detail)
        self.manifests = {}     # path -> entries (in use)
        self.entries = []       # (full, entry, manifest path)
        self.files = []         # walked regular files in scope

    def add(self, code, path, detail=''):
        self.problems.append((code, path, detail))


def audit(root, top, scope='', hashes=None, devmap=None, prior_in_use=(), written=None):
    """Independent audit of the saved Manifest tree (C03/C13).  hashes=None
    skips the key-set clause."""
    a = Audit()
    m = Model(root, top)
    fi = probe(m._p(top), want_data=False)
    if not fi.exists or fi.kind != 'file':
        a.add('top-missing', top)
        return a
    ents, raw = m.read_manifest(top)
    if ents is None:
        a.add('manifest-unparseable', top)
        return a
    a.manifests[top] = ents
    work = [top]
    refcount = {}
    while work:
        mp = work.pop(0)
        md = os.path.dirname(mp)
        for e in a.manifests[mp]:
            if e['tag'] != 'MANIFEST':
                continue
            full = os.path.normpath(pjoin(md, e['path']))
            refcount[full] = refcount.get(full, 0) + 1
            if full == mp:
                a.add('manifest-references-itself', full)
                continue
            f2 = probe(m._p(full))
            why = entry_matches(f2, e)
            fd = os.path.dirname(full)
            # a sub-directory update answers for the Manifests it rewrote and for those inside
            # its scope, not for stale references that lay beside its path before
            relevant = (not scope) or psw(fd, scope) or (written is not None and (full in written or mp in written))
            if why is not None and relevant:
                a.add('manifest-entry-stale', full, why)
            if full in a.manifests:
                continue
            if f2.exists and f2.kind == 'file':
                sub, raw = m.read_manifest(full)
                if sub is None:
                    a.add('manifest-unparseable', full)
                    continue
                a.manifests[full] = sub
                work.append(full)
    # one physical file per logical Manifest
    by_logical = {}
    for mp in a.manifests:
        by_logical.setdefault(logical_name(mp), []).append(mp)
    for ln, ps in by_logical.items():
        d = os.path.dirname(ln)
        base = os.path.basename(ln)
        try:
            names = _o['os.listdir'](m._p(d))
        except OSError:
            names = []
        phys = sorted(n for n in names if n == base or (n.startswith(base + '.') and G.comp_of(n) and logical_name(n) == base))
        # only files that are, or were before the operation, Manifests in use
        phys = [n for n in phys if pjoin(d, n) in a.manifests or pjoin(d, n) in prior_in_use]
        if len(phys) > 1:
            a.add('manifest-leftover', ln, ','.join(phys))
    ignores = []
    for mp, ents in a.manifests.items():
        md = os.path.dirname(mp)
        for e in ents:
            if e['tag'] == 'IGNORE':
                ignores.append(os.path.normpath(pjoin(md, e['path'])))
            elif e['tag'] in FILE_TAGS:
                a.entries.append((os.path.normpath(pjoin(md, e['path'])), e, mp))
    by_path = {}
    for full, e, mp in a.entries:
        by_path.setdefault(full, []).append((e, mp))
    # walk the scope
    v = Verdict()
    v.loop = False
    ign_entries = dict((i, {'tag': 'IGNORE'}) for i in ignores)
    walked = m.walk(scope, ign_entries, v)
    for rel, f in walked:
        if rel == top and os.path.dirname(rel) == '':
            continue
        if any(psw(rel, i) for i in ignores):
            continue
        if not f.exists:
            continue      # dangling symlink: invisible
        if f.kind != 'file':
            a.add('special-file-in-tree', rel)
            continue
        a.files.append(rel)
        es = by_path.get(rel, [])
        if not es:
            a.add('file-not-covered', rel)
            continue
        if len(es) > 1:
            a.add('file-covered-twice', rel, ','.join(mp for e, mp in es))
        f2 = probe(m._p(rel))
        for e, mp in es:
            why = entry_matches(f2, e)
            if why is not None:
                a.add('entry-wrong', rel, why + ' in ' + mp)
            if hashes is not None and set(e['sums']) != set(hashes):
                a.add('entry-hash-set', rel, '%s has %s want %s' % (mp, sorted(e['sums']), sorted(hashes)))
    for full, es in by_path.items():
        if not psw(full, scope):
            continue
        if any(psw(full, i) for i in ignores):
            if any(e_['tag'] != 'MANIFEST' for e_, _mp in es) and \
                    any(psw(full, i) and full != i and not psw(scope, i) for i in ignores):
                # a leftover from before the directory was declared IGNOREd: nothing keeps it true any more
                a.add('entry-under-ignore', full, es[0][1])
            continue
        f2 = probe(m._p(full), want_data=False)
        if not f2.exists:
            a.add('entry-for-vanished-file', full, es[0][1])
        elif f2.kind != 'file':
            a.add('entry-for-non-file', full, es[0][1])
    return a


# ----------------------------------------------------------------------------
# M-find: upward discovery of the top-level Manifest (C15)

MANIFEST_NAMES = ['Manifest', 'Manifest.gz', 'Manifest.bz2', 'Manifest.lzma', 'Manifest.xz']


def dev_of_rel(mounts, rel, default=1001):
    best, bl = default, -1
    for m, dev in mounts.items():
        if (rel == m or rel.startswith(m + '/')) and len(m) > bl:
            best, bl = dev, len(m)
    return best


def m_find(base, mounts, start, allow_compressed, allow_xdev):
    """Returns (set of acceptable answers as base-relative paths or {None})."""
    names = MANIFEST_NAMES if allow_compressed else MANIFEST_NAMES[:1]
    cur = start
    odev = dev_of_rel(mounts, cur if cur else '.')
    last = {None}
    while True:
        if dev_of_rel(mounts, cur if cur else '.') != odev and not allow_xdev:
            break
        present = [n for n in names if os.path.lexists(os.path.join(base, cur, n))]
        if present:
            # the reader takes the first present name; the statement leaves the
            # choice open, so the decision (ignore / boundary) is evaluated for
            # the first and both names are acceptable answers if it is accepted
            n = present[0]
            rel = (cur + '/' if cur else '') + n
            # (the device of the file the name leads to: a Manifest may be a symlink to a file elsewhere)
            real_rel = os.path.relpath(os.path.realpath(os.path.join(base, rel)), os.path.realpath(base))
            if (dev_of_rel(mounts, rel) != odev or dev_of_rel(mounts, real_rel) != odev) and not allow_xdev:
                return last
            with _o['open'](os.path.join(base, rel), 'rb') as f:
                ents = G.parse(G.decompress(f.read(), G.comp_of(n)).decode('utf8'))
            relstart = os.path.relpath(start or '.', cur or '.')
            if relstart == '.':
                relstart = ''
            if relstart and any(e['tag'] == 'IGNORE' and psw(relstart, e['path']) for e in ents):
                return last
            last = {rel}
            if len(present) > 1:
                last = {(cur + '/' if cur else '') + p for p in present}
        if cur == '':
            break
        cur = os.path.dirname(cur)
    return last




def cli_discovers_root_top(root, sub):
    """Would `gemato <cmd> root/sub` pick root/Manifest as its top-level
    Manifest?  (Upward discovery is C15's subject; other properties only use
    the CLI where it lands on the tree's own top-level Manifest.)"""
    try:
        return m_find(root, {}, sub, False, True) == {'Manifest'}
    except Exception:
        return False
