"""Reference models (oracles).  Independent of gemato: they read the real
store with the un-patched os functions, parse Manifests with M-grammar and
hash with hashlib."""
import errno
import hashlib
import os
import stat

from . import grammar as G
from .seam import orig as _o

COMPAT_TAGS = ('MANIFEST', 'DATA', 'EBUILD', 'AUX')


def psw(path, prefix):
    """component-wise 'path starts with prefix'"""
    prefix = prefix.rstrip('/')
    if prefix == '':
        return True
    return path == prefix or path.startswith(prefix + '/')


def pjoin(a, b):
    return b if not a else a + '/' + b


class FileInfo:
    __slots__ = ('exists', 'kind', 'size', 'mtime', 'data', 'dev', 'err', 'ino', 'mtime_ns')

    def __init__(self):
        self.exists = False
        self.kind = None
        self.size = None
        self.mtime = None
        self.mtime_ns = None
        self.data = None
        self.dev = None
        self.ino = None
        self.err = None


def probe(path, want_data=True):
    """What an honest observer sees at path (following symlinks)."""
    fi = FileInfo()
    try:
        st = _o['os.stat'](path)
    except FileNotFoundError:
        return fi
    except NotADirectoryError:
        fi.err = 'ENOTDIR'
        return fi
    except OSError as e:
        fi.err = e.errno
        return fi
    fi.exists = True
    fi.dev = st.st_dev
    fi.ino = st.st_ino
    m = st.st_mode
    fi.kind = ('file' if stat.S_ISREG(m) else 'dir' if stat.S_ISDIR(m) else 'special')
    if fi.kind == 'file':
        fi.size = st.st_size
        fi.mtime = st.st_mtime
        fi.mtime_ns = st.st_mtime_ns
        if want_data:
            with _o['open'](path, 'rb') as f:
                fi.data = f.read()
    return fi


def entry_matches(fi, e):
    """reason string if the file does not match entry e, else None"""
    if not fi.exists:
        return 'missing'
    if fi.kind != 'file':
        return 'type'
    if len(fi.data) != e['size']:
        return 'size'
    for h, v in e['sums'].items():
        hn = G.HASHLIB_NAME.get(h)
        if hn is None or hn not in hashlib.algorithms_available:
            return 'unsupported-hash'
        if hashlib.new(hn, fi.data).hexdigest() != v:
            return 'digest:' + h
    return None


class Verdict:
    def __init__(self):
        self.kind = 'OK'          # OK MISMATCH CHAIN INCOMPATIBLE FAIL-ANY DONTCARE
        self.offending = {}       # path -> reason
        self.maybe = {}           # path -> reason (either verdict acceptable: mtime shortcut)
        self.chain = []           # sub-Manifest paths that fail their entry
        self.zones = []
        self.entries = {}
        self.manifests = {}
        self.walked_files = []
        self.notes = []
        self.oserr = set()
        self.unsupported = False
        self.chain_why = {}

    def as_dict(self):
        return {'kind': self.kind, 'offending': dict(sorted(self.offending.items())),
                'maybe': dict(sorted(self.maybe.items())), 'chain': self.chain,
                'zones': sorted(set(self.zones))}


def discovery_obstacle(root, sub):
    """True if a directory strictly between root and sub (inclusive of sub)
    holds a file named Manifest that upward discovery would trip over:
    unparseable, or IGNOREing the start path.  (Discovery itself is C15.)"""
    d = sub
    while d:
        p = os.path.join(root, d, 'Manifest')
        if os.path.lexists(p):
            fi = probe(p)
            if not fi.exists or fi.kind != 'file':
                return True
            try:
                ents = G.parse(G.strip_signature(fi.data.decode('utf8'))[0])
            except Exception:
                return True
            rel = os.path.relpath(sub, d)
            for e in ents:
                if e['tag'] == 'IGNORE' and (rel == '.' and False or psw(rel if rel != '.' else '', e['path'])):
                    return True
        d = os.path.dirname(d)
    return False


class Model:
    def __init__(self, root, top_name='Manifest', devmap=None):
        self.root = root
        self.top = top_name
        self.devmap = devmap

    def _p(self, rel):
        return os.path.join(self.root, rel) if rel else self.root

    def read_manifest(self, rel):
        """-> (entries or None if unparseable, raw bytes)"""
        with _o['open'](self._p(rel), 'rb') as f:
            raw = f.read()
        try:
            text = G.decompress(raw, G.comp_of(rel)).decode('utf8')
            text, signed = G.strip_signature(text)
            return G.parse(text), raw
        except Exception:
            return None, raw

    def load_chain(self, subpath, v, recursive=True):
        """Follow MANIFEST entries from the top for everything that can apply
        to subpath (and, if recursive, lies beneath it)."""
        loaded = {}
        fi0 = probe(self._p(self.top), want_data=False)
        if not fi0.exists or fi0.kind != 'file':
            v.kind = 'FAIL-ANY'
            v.notes.append('top-level missing or not a regular file')
            return loaded
        try:
            ents, raw = self.read_manifest(self.top)
        except OSError:
            v.kind = 'FAIL-ANY'
            v.notes.append('top-level unreadable')
            return loaded
        if ents is None:
            v.kind = 'FAIL-ANY'
            v.notes.append('top-level unparseable')
            return loaded
        loaded[self.top] = ents
        work = [self.top]
        while work:
            mp = work.pop(0)
            mdir = os.path.dirname(mp)
            for e in loaded[mp]:
                if e['tag'] != 'MANIFEST':
                    continue
                full = pjoin(mdir, e['path'])
                if full == mp or full in loaded:
                    continue
                sd = os.path.dirname(full)
                if not (psw(subpath, sd) or (recursive and psw(sd, subpath))):
                    continue
                fi = probe(self._p(full))
                if fi.err == 'ENOTDIR':
                    v.zones.append('manifest-beneath-file')
                    v.chain.append(full)
                    continue
                if fi.err is not None:
                    v.oserr.add(errno.errorcode.get(fi.err, str(fi.err)))
                why = entry_matches(fi, e)
                if why is not None:
                    v.chain.append(full)
                    v.chain_why[full] = why
                    continue
                sub, raw = self.read_manifest(full)
                if sub is None:
                    v.chain.append(full)
                    v.zones.append('registered-manifest-unparseable')
                    continue
                loaded[full] = sub
                work.append(full)
        for ents in loaded.values():
            for e in ents:
                for h in e.get('sums', {}):
                    if G.HASHLIB_NAME.get(h) not in hashlib.algorithms_available:
                        v.unsupported = True
        return loaded

    def merged_entries(self, loaded, subpath, v):
        """full path -> merged entry dict; sets v.kind on incompatibility"""
        out = {}
        # deepest Manifests first, like any reasonable reader; order only
        # matters for which conflict is named
        for mp in sorted(loaded, key=lambda k: (-len(os.path.dirname(k)), k)):
            mdir = os.path.dirname(mp)
            for e in loaded[mp]:
                t = e['tag']
                if t in ('DIST', 'TIMESTAMP'):
                    continue
                full = os.path.normpath(pjoin(mdir, e['path']))
                if full.startswith('../') or full == '..' or full.startswith('/'):
                    v.zones.append('entry-outside-tree')
                    continue
                if not psw(full, subpath):
                    continue
                if full not in out:
                    ne = dict(e)
                    ne['sums'] = dict(e.get('sums', {}))
                    ne['path'] = full
                    out[full] = ne
                    continue
                o = out[full]
                if o['tag'] != t:
                    if o['tag'] not in COMPAT_TAGS or t not in COMPAT_TAGS:
                        if 'IGNORE' in (o['tag'], t) and 'MISC' not in (o['tag'], t):
                            v.kind = 'INCOMPATIBLE'
                        elif 'MISC' in (o['tag'], t) and 'IGNORE' not in (o['tag'], t):
                            v.zones.append('dup-misc-vs-other-tag')
                            v.kind = 'DONTCARE'
                        else:
                            v.kind = 'INCOMPATIBLE'
                        continue
                if t == 'IGNORE':
                    continue
                if o['size'] != e['size']:
                    v.kind = 'INCOMPATIBLE'
                    continue
                for h, val in e['sums'].items():
                    if h in o['sums'] and o['sums'][h] != val:
                        v.kind = 'INCOMPATIBLE'
                    o['sums'].setdefault(h, val)
        return out

    def walk(self, subpath, entries, v):
        """Returns list of (relpath, kindclass) for every non-hidden non-dir
        name reachable from subpath, pruning at IGNOREd / listed dirs."""
        files = []
        start = self._p(subpath)
        st = probe(start, want_data=False)
        if not st.exists or st.kind != 'dir':
            v.zones.append('subpath-not-a-directory')
            return files
        stack = [(subpath, [(st.dev, st.ino)])]
        while stack:
            d, anc = stack.pop()
            try:
                names = sorted(_o['os.listdir'](self._p(d)))
            except OSError:
                v.zones.append('unlistable-directory')
                continue
            for n in names:
                if n.startswith('.'):
                    continue
                rel = pjoin(d, n)
                fi = probe(self._p(rel), want_data=False)
                if fi.exists and fi.kind == 'dir':
                    e = entries.get(rel)
                    if e is not None:
                        continue     # IGNOREd or listed as a file: not entered
                    ident = (fi.dev, fi.ino)
                    if ident in anc:
                        v.zones.append('symlink-loop')
                        v.loop = True
                        continue
                    stack.append((rel, anc + [ident]))
                else:
                    files.append((rel, fi))
        return files

    def verdict(self, subpath='', last_mtime=None):
        v = Verdict()
        v.loop = False
        loaded = self.load_chain(subpath, v)
        v.manifests = loaded
        if v.kind == 'FAIL-ANY':
            return v
        if v.chain:
            v.kind = 'CHAIN'
            return v
        entries = self.merged_entries(loaded, subpath, v)
        v.entries = entries
        if v.kind in ('INCOMPATIBLE', 'DONTCARE'):
            return v
        # zone: verifying at/under an IGNORE, or entries under an IGNOREd path
        ignores = [p for p, e in entries.items() if e['tag'] == 'IGNORE']
        all_ign = []
        for mp, ents in loaded.items():
            for e in ents:
                if e['tag'] == 'IGNORE':
                    all_ign.append(os.path.normpath(pjoin(os.path.dirname(mp), e['path'])))
        if subpath and any(psw(subpath, i) for i in all_ign):
            v.zones.append('subpath-under-ignore')
            v.kind = 'DONTCARE'
            return v
        for p, e in entries.items():
            if e['tag'] != 'IGNORE' and any(p != i and psw(p, i) for i in ignores):
                v.zones.append('entry-under-ignore')
                v.kind = 'DONTCARE'
                return v
            if e['tag'] == 'IGNORE' and any(p != i and psw(p, i) for i in ignores):
                pass
        files = self.walk(subpath, entries, v)
        if 'subpath-not-a-directory' in v.zones:
            v.kind = 'DONTCARE'
            return v
        walked = set()
        for rel, fi in files:
            walked.add(rel)
            if subpath == '' and rel == self.top:
                continue
            if os.path.dirname(rel) == '' and rel == self.top:
                continue
            e = entries.get(rel)
            if e is None:
                # stray unless it does not "exist" for an opener (dangling link)
                if fi.exists:
                    v.offending[rel] = 'stray'
                elif fi.err not in (None,):
                    v.offending[rel] = 'stray?'
                    v.oserr.add(fi.err if fi.err == 'ENOTDIR' else errno.errorcode.get(fi.err, str(fi.err)))
                continue
        # every listed entry is checked, walked or not
        for p, e in entries.items():
            if e['tag'] == 'IGNORE':
                continue
            fi = probe(self._p(p))
            if fi.err == 'ENOTDIR':
                v.zones.append('entry-beneath-file')
                v.enotdir = True
                v.offending[p] = 'beneath-file'
                continue
            if fi.err is not None:
                v.zones.append('probe-error')
                v.offending[p] = 'error'
                v.oserr.add(errno.errorcode.get(fi.err, str(fi.err)))
                continue
            hidden = any(c.startswith('.') for c in p.split('/'))
            if hidden:
                v.zones.append('listed-hidden-path')
            why = None
            if not fi.exists:
                why = 'missing'
            elif fi.kind != 'file':
                why = 'type'
            elif fi.size != e['size'] and fi.size != 0:
                why = 'size'
            else:
                why = entry_matches(fi, e)
                if why is not None and last_mtime is not None and fi.size != 0 \
                        and fi.mtime <= last_mtime:
                    # not newer than the last verification and st_size
                    # unchanged: *may* be skipped
                    v.maybe[p] = why
                    v.zones.append('mtime-shortcut')
                    why = None
            if why is not None:
                v.offending[p] = why
        if v.offending:
            v.kind = 'MISMATCH'
        if getattr(v, 'loop', False):
            v.kind = 'LOOP'
        v.walked_files = sorted(walked)
        return v
