"""Helpers shared by the property modules: outcome classification, CLI
driver, result assembly."""
import contextlib
import errno as _errno
import io
import logging
import os
import sys
import time as _time
import traceback

import gemato.cli
import gemato.exceptions as GE
from gemato.exceptions import GematoException

from .seam import SimStepLimit, orig as _oo

INTERNAL_OK = ()   # exception classes never accepted


def exc_site(e):
    """'Class@function' of the innermost frame inside gemato (or utils)."""
    tb = traceback.extract_tb(e.__traceback__)
    fn = '?'
    line = ''
    for fr in tb:
        f = fr.filename.replace('\\', '/')
        if '/gemato/' in f or '/utils/' in f:
            fn = os.path.basename(f)[:-3] + '.' + fr.name
            line = ' '.join((fr.line or '').split())[:70]
    return '%s@%s[%s]' % (type(e).__name__, fn, line)


def classify_exc(e):
    """Outcome class of an exception that escaped a gemato API call."""
    if isinstance(e, SimStepLimit):
        return ('STEP-LIMIT', 'STEP-LIMIT')
    if isinstance(e, GematoException):
        return ('GE', type(e).__name__)
    if isinstance(e, OSError):
        # compression modules raise bare OSError/EOFError subclasses
        if type(e).__module__ in ('gzip', 'lzma', '_lzma', 'zlib', 'bz2'):
            return ('CODEC', type(e).__name__)
        if e.errno is None:
            return ('CODEC', type(e).__name__)
        return ('OS', _errno.errorcode.get(e.errno, str(e.errno)))
    if isinstance(e, (EOFError,)) or type(e).__name__ in ('LZMAError', 'error', 'BadGzipFile'):
        return ('CODEC', type(e).__name__)
    if isinstance(e, UnicodeDecodeError):
        return ('DECODE', 'UnicodeDecodeError')
    return ('INTERNAL', exc_site(e))


def call(fn, *a, **kw):
    """Run fn; returns ('ok', value) or (class, name, exception)."""
    try:
        return ('ok', fn(*a, **kw))
    except SimStepLimit as e:
        return ('STEP-LIMIT', 'STEP-LIMIT', e)
    except SystemExit as e:
        return ('EXIT', str(e.code), e)
    except Exception as e:
        c = classify_exc(e)
        return (c[0], c[1], e)


class _ListHandler(logging.Handler):
    def __init__(self):
        super().__init__()
        self.records = []
        self.exc_classes = []
        self.excs = []

    def emit(self, record):
        try:
            self.records.append((record.levelname, record.getMessage()))
        except Exception:
            self.records.append((record.levelname, '<unformattable>'))
        if isinstance(record.msg, BaseException):
            self.exc_classes.append(type(record.msg).__name__)
            self.excs.append(record.msg)


def run_cli(argv, cwd=None, stdin=None, tz=None):
    """gemato.cli.main in-process.  Returns dict(rc=..., kind=..., log=[...],
    out=str).  rc is the return value (or SystemExit code); kind as in
    call()."""
    h = _ListHandler()
    root = logging.getLogger()
    old_level = root.level
    old_handlers = root.handlers[:]
    root.handlers = [h]
    root.setLevel(logging.INFO)
    out = io.StringIO()
    err = io.StringIO()
    old_cwd = os.getcwd()
    old_tz = os.environ.get('TZ')
    old_gh = os.environ.get('GNUPGHOME')
    old_stdin = sys.stdin
    try:
        if tz is not None:
            os.environ['TZ'] = tz
            _time.tzset()
        if cwd is not None:
            os.chdir(cwd)
        if stdin is not None:
            sys.stdin = stdin
        with contextlib.redirect_stdout(out), contextlib.redirect_stderr(err):
            r = call(gemato.cli.main, ['gemato'] + list(argv))
    finally:
        sys.stdin = old_stdin
        os.chdir(old_cwd)
        if tz is not None:
            if old_tz is None:
                os.environ.pop('TZ', None)
            else:
                os.environ['TZ'] = old_tz
            _time.tzset()
        if old_gh is None:
            os.environ.pop('GNUPGHOME', None)
        else:
            os.environ['GNUPGHOME'] = old_gh
        root.handlers = old_handlers
        root.setLevel(old_level)
    res = {'log': h.records, 'out': out.getvalue(), 'err': err.getvalue(),
           'logged_exc': h.exc_classes, 'logged_exc_objs': h.excs}
    if r[0] == 'ok':
        res['kind'] = 'ok'
        res['rc'] = r[1]
    elif r[0] == 'EXIT':
        res['kind'] = 'EXIT'
        try:
            res['rc'] = int(r[1])
        except ValueError:
            res['rc'] = 1
    else:
        res['kind'] = r[0]
        res['name'] = r[1]
        res['exc'] = r[2]
        res['rc'] = None
    return res


def mk_result(seam_list, violations, nontrivial, outcome=None, dontcare=None,
              counters=None, ops=0, states=None, extra_digest=''):
    import hashlib
    m = hashlib.sha256()
    fired = {}
    calls = 0
    sim_ns = 0
    for s in seam_list:
        m.update(s.digest().encode())
        for k, v in s.fired.items():
            fired[k] = fired.get(k, 0) + v
        calls += s.n
        sim_ns += s.clock.now_ns - s.clock.epoch_ns
        sr = s.stats.get('short_reads', 0)
        if sr:
            fired['short_read'] = fired.get('short_read', 0) + sr
        pl = s.stats.get('permuted_listings', 0)
        if pl:
            fired['schedule.permuted-directory-listing'] = fired.get('schedule.permuted-directory-listing', 0) + pl
    m.update(repr(outcome).encode('utf8', 'backslashreplace'))
    m.update(extra_digest.encode('utf8', 'backslashreplace'))
    return {'violations': violations, 'digest': m.hexdigest()[:32],
            'nontrivial': bool(nontrivial), 'faults_fired': fired,
            'dontcare': dontcare or {}, 'counters': counters or {},
            'seam_calls': calls, 'sim_ns': sim_ns, 'ops': ops,
            'outcome': outcome, 'states': states or ()}


def viol(clause, detail, sig=''):
    return {'clause': clause, 'detail': str(detail)[:1500], 'sig': sig}


def internal_violations(results, allow=()):
    """C18 invariant I-internal over a list of call() results."""
    out = []
    for r in results:
        if r and r[0] == 'INTERNAL':
            out.append(viol('I-internal', 'internal error escaped: %s: %s' % (r[1], r[2]), sig=r[1]))
    return out


def cli_as_call(c):
    """Map a run_cli() result onto the call() result shape: exit 0 -> ok True;
    exit 1 with a logged GematoException -> ('GE', class, exc)."""
    if c['kind'] == 'ok':
        if c['rc'] == 0:
            return ('ok', True)
        if c['logged_exc']:
            return ('GE', c['logged_exc'][-1], c['logged_exc_objs'][-1])
        return ('GE', 'cli-exit-%s' % c['rc'], None)
    if c['kind'] == 'EXIT':
        return ('GE', 'cli-exit-%s' % c['rc'], None)
    return (c['kind'], c['name'], c.get('exc'))


def _open_unless_fifo(fn):
    # (a blocking open of a named pipe would wait for a writer for ever)
    import stat as _st
    if _st.S_ISFIFO(_oo['os.stat'](fn).st_mode):
        return
    _oo['open'](fn, 'rb').close()


def genuine_oserror(e):
    fn = getattr(e, 'filename', None)
    if e.errno is None:
        return False
    if fn is None:
        return False
    for probe in (lambda: _oo['os.stat'](fn), lambda: _oo['os.close'](_oo['os.open'](fn, os.O_RDONLY | os.O_NONBLOCK)),
                  lambda: _oo['os.listdir'](fn), lambda: _open_unless_fifo(fn)):
        try:
            probe()
        except OSError as e2:
            if e2.errno == e.errno:
                return True
        except ValueError:
            return False
    return False


