"""Scenario predicates used by known_findings.json to pin a finding to the
specific input shape that fails."""
import os


def _manifest_specs(sc):
    out = list(sc.get('manifests', []))
    for r in sc.get('rounds', []):
        for e in r.get('edits', []):
            if e.get('m') == 'manifest':
                out.append(e)
    for e in sc.get('muts', []):
        if e.get('m') == 'manifest':
            out.append(e)
    return out


def dup_entries_equal_after_merge(sc, v):
    """D11: one Manifest lists the same path twice such that, after the
    checksums of the second are merged into the first, both compare equal
    (same tag, same size, key set of the first is a subset of the second)."""
    for m in _manifest_specs(sc):
        ents = [e for e in m.get('entries', []) if e.get('tag') in ('DATA', 'MISC', 'EBUILD', 'AUX', 'MANIFEST')]
        for i in range(len(ents)):
            for j in range(i + 1, len(ents)):
                a, b = ents[i], ents[j]
                if a['tag'] != b['tag'] or a['path'] != b['path']:
                    continue
                if a.get('dsize', 0) != b.get('dsize', 0) or a.get('size') != b.get('size'):
                    continue
                ka = set(a.get('hashes', a.get('sums', {})))
                kb = set(b.get('hashes', b.get('sums', {})))
                if ka <= kb:
                    return True
                if a['tag'] == 'MANIFEST':
                    # every save refreshes all MANIFEST entries of a Manifest with one hash set, so two MANIFEST
                    # entries for one file are equal from the first save (forced, or of a sub-directory) onwards
                    return True
    return False


def same_dir_manifest_reference(sc, v):
    """D7: a Manifest has a MANIFEST entry for a file in its own directory."""
    for m in _manifest_specs(sc):
        for e in m.get('entries', []):
            if e.get('tag') == 'MANIFEST' and '/' not in e.get('path', '/'):
                return True
    return False


def _all_files(sc):
    out = []
    for t in sc.get('tree', []):
        out.append(t['p'])
    for r in sc.get('rounds', []):
        for e in r.get('edits', []):
            if e.get('m') in ('add', 'retype'):
                out.append(e['p'])
    for m in _manifest_specs(sc):
        out.append(m['p'])
    return out


def manifest_named_file_beside_top(sc, v):
    """D9: a second file with a Manifest name (Manifest.gz, .bz2, .lzma, .xz)
    lies in the top directory next to the top-level Manifest."""
    top = sc.get('top', 'Manifest')
    names = ('Manifest', 'Manifest.gz', 'Manifest.bz2', 'Manifest.lzma', 'Manifest.xz')
    return any(p in names and p != top for p in _all_files(sc))


def manifest_reachable_through_directory_symlink(sc, v):
    """ALIAS: a directory symlink makes a directory that holds a Manifest (or
    receives one from an ebuild profile) visible under a second path."""
    links = [t for t in sc.get('tree', []) if t.get('k') == 'symlink']
    for r in sc.get('rounds', []):
        links += [e for e in r.get('edits', []) if e.get('k') == 'symlink']
    if not links:
        return False
    prof = any(r.get('update', {}).get('profile') in ('ebuild', 'old-ebuild') for r in sc.get('rounds', []))
    prof = prof or sc.get('profile') in ('ebuild', 'old-ebuild')
    if prof:
        return True
    files = _all_files(sc)
    for l in links:
        tgt = os.path.normpath(os.path.join(os.path.dirname(l['p']), l.get('t', '')))
        if tgt == '.':
            tgt = ''
        for f in files:
            if os.path.basename(f).startswith('Manifest') and f != sc.get('top', 'Manifest') and \
                    (tgt == '' or f.startswith(tgt + '/')):
                return True
    return False


def ebuild_profile_with_directory_symlink(sc, v):
    """ALIAS: an ebuild profile creates new Manifests while a directory
    symlink makes the same directory visible under a second path."""
    prof = any(r.get('update', {}).get('profile') in ('ebuild', 'old-ebuild') for r in sc.get('rounds', []))
    prof = prof or sc.get('profile') in ('ebuild', 'old-ebuild')
    link = any(t.get('k') == 'symlink' for t in sc.get('tree', []))
    return prof and link


def data_listed_file_is_valid_manifest(sc, v):
    """D13: a file with a Manifest name that is not part of the Manifest
    layout (so it is, or becomes, listed as a plain DATA file) holds text that
    parses as a Manifest (e.g. it is empty)."""
    from sim import grammar as G
    layout = set(m['p'] for m in sc.get('manifests', []))
    cands = []
    for t in sc.get('tree', []):
        if t.get('k', 'file') == 'file':
            cands.append((t['p'], t.get('c', '')))
    for r in sc.get('rounds', []):
        for e in r.get('edits', []):
            if e.get('m') in ('add', 'rewrite', 'retype') and e.get('k', 'file') == 'file':
                cands.append((e['p'], e.get('c', '')))
            if e.get('m') in ('truncate',):
                cands.append((e['p'], ''))
    for p, c in cands:
        b = os.path.basename(p)
        if b == 'Manifest' and p not in layout:
            try:
                G.parse(c)
                return True
            except Exception:
                pass
    return False


def fails_without_regular_file_named_files(sc, v):
    """AUXPLACE is the cause only if the same failure remains once every
    regular file that is itself called 'files' is taken out of the scenario
    (the file-named-'files' case was repaired, see KF-D8-FILES; a failure
    that needs such a file is a different defect)."""
    import copy
    import importlib
    def is_ff(t):
        if t.get('m') in ('delete', 'mtime', 'flip', 'truncate', 'append', 'manifest', 'recompress'):
            return False      # (does not create anything; e.g. the deletion of a DIRECTORY called files)
        return t.get('k', 'file') == 'file' and os.path.basename(t.get('p', '')) == 'files'
    sc2 = copy.deepcopy(sc)
    changed = False
    for key in ('tree', 'odd', 'late_odd', 'edits'):
        if isinstance(sc2.get(key), list):
            n = len(sc2[key])
            sc2[key] = [t for t in sc2[key] if not is_ff(t)]
            changed = changed or len(sc2[key]) != n
    for r in sc2.get('rounds', []):
        n = len(r.get('edits', []))
        r['edits'] = [t for t in r.get('edits', []) if not is_ff(t)]
        changed = changed or len(r['edits']) != n
    if not changed:
        return True
    mod = importlib.import_module('sim.props.' + sc.get('prop', 'C18').lower())
    res = mod.execute(sc2)
    return any(x.get('sig') == v.get('sig') for x in res.get('violations', []))


def no_regular_file_named_files(sc, v):
    """AUXPLACE applies only when the tree has no regular file that is itself
    called 'files' (that case was repaired; see fixed entry KF-D8-FILES)."""
    specs = list(sc.get('tree', [])) + list(sc.get('odd', [])) + list(sc.get('late_odd', []))
    for r in sc.get('rounds', []):
        specs += r.get('edits', [])
    specs += sc.get('edits', []) if isinstance(sc.get('edits'), list) else []
    for t in specs:
        if t.get('k', 'file') == 'file' and os.path.basename(t.get('p', '')) == 'files':
            return False
    return True


def unlinked_manifests_lie_in_hidden_directories(sc, v):
    """KF-D10-UNLINKED is pinned to its cause: every Manifest the assertion names lies inside a hidden directory (created there
    by an explicit update, never referenced because the walk of the directory above skips dot-directories).  The same assertion
    tripping over a Manifest in a visible directory is a different defect and is reported."""
    import re
    m = re.search(r"Unlinked but updated Manifests: \{(.*?)\}", v.get('detail', ''))
    if not m:
        return False
    paths = re.findall(r"'((?:[^'\\]|\\.)*)'", m.group(1))
    if not paths:
        return False
    return all(any(c.startswith('.') for c in p_.split('/')[:-1]) for p_ in paths)


CYCLE_KINDS = ('manifest-cycle', 'manifest-cycle-3', 'manifest-back-ref', 'manifest-self')


def needs_a_manifest_reference_cycle(sc, v):
    """KF-CYCLE-UNLINKED is causal: the scenario damages a Manifest so that Manifests of one directory reference each other
    in a cycle, and the same scenario WITHOUT that damage no longer trips the assertion."""
    import copy
    import importlib
    dmg = sc.get('damage')
    if not isinstance(dmg, list) or not any(d_.get('kind') in CYCLE_KINDS for d_ in dmg):
        return False
    sc2 = copy.deepcopy(sc)
    sc2['damage'] = [d_ for d_ in dmg if d_.get('kind') not in CYCLE_KINDS]
    mod = importlib.import_module('sim.props.' + sc.get('prop', 'C18').lower())
    res = mod.execute(sc2)
    return not any(x.get('sig') == v.get('sig') for x in res.get('violations', []))


def unlinked_manifests_are_wellformed(sc, v):
    """KF-D10-UNLINKED covers WELL-FORMED Manifest files that end up queued while nothing references them (inside a hidden
    directory, beneath an IGNORE held by another Manifest, written by gemato itself earlier in the history).  If a file the
    assertion names was put there by the scenario with bytes that do NOT parse as a Manifest (junk, a half-valid look-alike),
    the updater took a non-Manifest for a Manifest: a different defect, reported."""
    import re
    from sim import grammar as G
    from sim.world import content_bytes
    m = re.search(r"Unlinked but updated Manifests: \{(.*?)\}", v.get('detail', ''))
    if not m:
        return False
    paths = [eval("'" + x + "'") for x in re.findall(r"'((?:[^'\\]|\\.)*)'", m.group(1))]
    if not paths:
        return False
    specs = list(sc.get('tree', [])) + list(sc.get('odd', [])) + list(sc.get('late_odd', []))
    for r in sc.get('rounds', []):
        specs += [e for e in r.get('edits', []) if e.get('m') in ('add', 'rewrite', 'put')]
    specs += [e for e in (sc.get('edits') if isinstance(sc.get('edits'), list) else []) if e.get('m') in ('add', 'rewrite', 'put')]
    specs += [e for e in (sc.get('muts') if isinstance(sc.get('muts'), list) else []) if e.get('m') in ('add', 'rewrite', 'put')]
    for p_ in paths:
        for t in specs:
            if t.get('p') == p_ and t.get('k', 'file') == 'file':
                try:
                    G.parse(G.decompress(content_bytes(t), G.comp_of(p_)).decode('utf8'))
                except Exception:
                    return False
    return True


def noncanonical_entry_path_and_subdirectory_update(sc, v):
    """KF-NONCANON-SUBDIR: some prior Manifest holds a file entry whose path is spelled with a `.` component (`./x/f`, `x/./f`)
    and the failing operation is an update of a sub-directory (the detail names its path)."""
    import re
    def odd(pth):
        comps = pth.split('/')
        return '.' in comps
    has = any(odd(e.get('path', '')) for m in sc.get('manifests', []) for e in m.get('entries', []) if e.get('tag') in ('DATA', 'EBUILD', 'MISC', 'AUX'))
    for r in sc.get('rounds', []):
        for e in r.get('edits', []):
            if e.get('m') == 'manifest':
                has = has or any(odd(x.get('path', '')) for x in e.get('entries', []))
    if not has:
        return False
    return bool(re.search(r"update\([^)]*path='[^']", v.get('detail', '')))


def detail_contains(sc, v, text=''):
    """the violation's message carries the given text (e.g. 'embedded null byte')"""
    return bool(text) and text in v.get('detail', '')


def operation_is_subdirectory_update(sc, v):
    """KF-D10-INDEX needs an update that STARTS in a sub-directory (the Manifest stack then has nothing above an unregistered
    Manifest met there); the same IndexError from a whole-tree update is a different defect."""
    import re
    d = v.get('detail', '')
    if re.search(r"path='[^']", d) or re.search(r"op='update-sub'", d) or re.search(r"path2='[^']", d):
        return True
    # (checks whose message does not spell the operation out: the scenario's single operation starts in a sub-directory)
    if str(sc.get('op', '')).endswith('update-sub') and bool(sc.get('sub')):
        return True
    for r in sc.get('rounds', []) if isinstance(sc.get('rounds'), list) else []:
        u = r.get('update') if isinstance(r, dict) else None
        if isinstance(u, dict) and (u.get('path') or u.get('path2')):
            return True
    for o in sc.get('ops', []) if isinstance(sc.get('ops'), list) else []:
        if isinstance(o, dict) and 'update' in str(o.get('op', '')) and (o.get('path') or o.get('sub')):
            return True
    return False
