"""Entry point.  Run through /verif/check (sets PYTHONPATH, PYTHONHASHSEED)."""
import argparse
import os
import sys

HERE = os.path.dirname(os.path.abspath(__file__))
VERIF = os.path.dirname(HERE)
REPO = os.environ.get('VERIF_REPO', '/repo')
# make sure the working tree under test wins over any installed copy
for p in (VERIF, REPO):
    if p in sys.path:
        sys.path.remove(p)
sys.path.insert(0, VERIF)
sys.path.insert(0, REPO)
if sys.path and os.path.abspath(sys.path[2] if len(sys.path) > 2 else '') == HERE:
    pass
sys.path = [p for p in sys.path if os.path.abspath(p or '.') != HERE]


def main():
    ap = argparse.ArgumentParser()
    ap.add_argument('prop')
    ap.add_argument('--tier', default=os.environ.get('VERIF_TIER', 'quick'),
                    choices=['quick', 'thorough'])
    ap.add_argument('--replay')
    ap.add_argument('--seed', type=int, default=int(os.environ.get('VERIF_SEED', '0') or 0))
    ap.add_argument('--n', type=int)
    ap.add_argument('--jobs', type=int)
    ap.add_argument('--budget', type=float)
    ap.add_argument('--index', type=int, help='run one generated scenario and print it')
    a = ap.parse_args()

    import gemato
    gp = os.path.dirname(os.path.dirname(os.path.abspath(gemato.__file__)))
    if os.path.realpath(gp) != os.path.realpath(REPO):
        print('HARNESS-ERROR: gemato imported from %s, expected %s' % (gp, REPO))
        return 2
    os.environ['GEMATO_VERIF_SIM'] = '1'

    from sim import runner, selftest
    if a.prop.startswith('selftest'):
        return selftest.main(a.prop, a)
    if a.replay:
        return runner.replay(a.prop, a.replay)
    if a.index is not None:
        import json, random
        mod = runner.load_prop(a.prop)
        sc = mod.generate(random.Random(runner.subseed(a.seed, a.prop, a.index)), a.tier, a.index)
        res = mod.execute(sc)
        print(json.dumps({'scenario': sc, 'result': res}, indent=1, default=str, sort_keys=True))
        return 1 if res.get('violations') else 0
    return runner.run_check(a.prop, a.tier, a.seed, n=a.n, jobs=a.jobs, budget_s=a.budget)


if __name__ == '__main__':
    sys.exit(main())
