"""Role-based generator of ebuild-repository-shaped trees (C19, C20) and the
policy model M-policy computed from the ROLES, not from paths."""
import os

CATS = ['app-misc', 'dev-lang', 'sys-apps', 'x11-wm', 'net-p2p', 'virtual', 'dev', 'sys', 'app-misc-extra']   # incl. names that extend another as a string
PKGS = ['foo', 'bar', 'baz-qux', 'libfoo', 'a', 'foo-utils', 'bar2', 'ab']
TOP_IGNORED = ('distfiles', 'local', 'lost+found', 'packages')
META_IGN = ('timestamp', 'timestamp.chk', 'timestamp.commit', 'timestamp.x')
METASUB_IGN = ('timestamp.chk', 'timestamp.commit')


def _c(rng, n=None):
    n = n if n is not None else rng.choice([0, 3, 20, 60, 200])
    return ''.join(rng.choice('abcdefgh \n<>/=') for _ in range(n))


def gen_repo(rng, portable=False, cfg=None):
    """Returns dict(tree=[...], roles={...}).  roles:
       categories: [cat], packages: {cat/pkg: {...}}, manifest_dirs: set,
       ignores: {manifest dir: [names]}, tags: {path: tag under old-ebuild}"""
    cfg = cfg or {}
    tree = []
    roles = {'manifest_dirs': [''], 'tags': {}, 'ignored_present': [], 'package_dirs': [], 'files': []}

    def add(p, c=None):
        tree.append({'p': p, 'k': 'file', 'c': _c(rng) if c is None else c})
        roles['files'].append(p)

    ncat = rng.choice([0, 1, 1, 2, 3, 4]) if not cfg.get('min_cats') else rng.choice([1, 2, 3])
    cats = rng.sample(CATS, ncat)
    if ncat >= 2 and rng.random() < 0.3:
        # sibling categories where one name extends the other as a string
        pair = rng.choice([('dev', 'dev-lang'), ('sys', 'sys-apps'), ('app-misc', 'app-misc-extra')])
        cats = list(pair) + [c for c in cats if c not in pair][:ncat - 2]
    catlist = []
    for c in cats:
        npk = rng.choice([0, 1, 1, 2, 3, 4])
        has_meta = rng.random() < 0.6
        if npk == 0 and not has_meta:
            npk = 1            # empty categories without metadata.xml: don't-care zone, not generated
        catlist.append(c)
        roles['manifest_dirs'].append(c)
        if has_meta:
            add(c + '/metadata.xml')
            roles['tags'][c + '/metadata.xml'] = 'DATA'
        if npk == 0:
            tree.append({'p': c, 'k': 'dir'})
        pks = rng.sample(PKGS, npk)
        if npk >= 2 and rng.random() < 0.3:
            pair = rng.choice([('foo', 'foo-utils'), ('bar', 'bar2'), ('a', 'ab')])
            pks = list(pair) + [x for x in pks if x not in pair][:npk - 2]
        for pk in pks:
            d = c + '/' + pk
            roles['manifest_dirs'].append(d)
            roles['package_dirs'].append(d)
            ebuildless = rng.random() < cfg.get('p_ebuildless', 0.1)
            if ebuildless:
                # a package directory that has its metadata.xml and files/ but no ebuild yet
                roles.setdefault('ebuildless', []).append(d)
            for v in ([] if ebuildless else rng.sample(['1.0', '2', '2.1-r1', '9999'], rng.choice([1, 1, 2, 3]))):
                p = '%s/%s-%s.ebuild' % (d, pk, v)
                add(p)
                roles['tags'][p] = 'EBUILD'
            if ebuildless or rng.random() < 0.8:
                add(d + '/metadata.xml')
                roles['tags'][d + '/metadata.xml'] = 'MISC'
            if ebuildless or rng.random() < 0.6:
                for n in rng.sample(['fix.patch', 'init.d', 'conf', 'sub/deep.patch', 'sub/more/x'], rng.choice([1, 2, 3])):
                    p = d + '/files/' + n
                    add(p)
                    roles['tags'][p] = 'AUX'
            if rng.random() < 0.15:
                p = d + '/ChangeLog'
                add(p)
                roles['tags'][p] = 'DATA'
            if rng.random() < 0.25:
                # other files that share a suffix with the specially typed ones
                for n in rng.sample(['extra.xml', 'a.xml', 'zz-metadata.xml', 'notes.ebuild.txt', 'metadata.xml.bak'], rng.choice([1, 2])):
                    p = d + '/' + n
                    add(p)
                    roles['tags'][p] = 'DATA'
    roles['categories'] = catlist
    std = cfg.get('standard_dirs')
    # eclass / licenses / profiles
    if std or rng.random() < 0.7:
        roles['manifest_dirs'].append('eclass')
        tree.append({'p': 'eclass', 'k': 'dir'})
        for n in rng.sample(['eutils.eclass', 'toolchain.eclass', 'git-r3.eclass'], rng.choice([0, 1, 2])):
            add('eclass/' + n)
        if rng.random() < 0.2:
            add('eclass/tests/test.sh')
    if std or rng.random() < 0.6:
        roles['manifest_dirs'].append('licenses')
        tree.append({'p': 'licenses', 'k': 'dir'})
        for n in rng.sample(['GPL-2', 'MIT', 'BSD'], rng.choice([0, 1, 2])):
            add('licenses/' + n)
    if std or rng.random() < 0.7:
        roles['manifest_dirs'].append('profiles')
        tree.append({'p': 'profiles', 'k': 'dir'})
        cats_text = ''.join(c + '\n' for c in catlist)
        if catlist and rng.random() < 0.3:
            cats_text = cats_text[:-1]          # written with '\n'.join(): no newline after the last category
        add('profiles/categories', cats_text)
        add('profiles/repo_name', 'test\n')
        for n in rng.sample(['arch/amd64/make.defaults', 'base/packages', 'desc/foo.desc'], rng.choice([0, 1, 2])):
            add('profiles/' + n)
    # metadata
    if std or rng.random() < 0.75:
        roles['manifest_dirs'].append('metadata')
        tree.append({'p': 'metadata', 'k': 'dir'})
        add('metadata/layout.conf', 'masters = gentoo\n')
        for sub in ('dtd', 'glsa', 'news', 'xml-schema'):
            if std or rng.random() < 0.6:
                roles['manifest_dirs'].append('metadata/' + sub)
                tree.append({'p': 'metadata/' + sub, 'k': 'dir'})
                if sub == 'news' and rng.random() < 0.7:
                    add('metadata/news/2020-01-01-item/2020-01-01-item.en.txt')
                else:
                    for n in rng.sample(['a.' + sub, 'b.xml', 'c'], rng.choice([0, 1, 2])):
                        add('metadata/%s/%s' % (sub, n))
                if rng.random() < 0.3:
                    p = 'metadata/%s/timestamp.chk' % sub
                    tree.append({'p': p, 'k': 'file', 'c': 'ts\n'})
                    roles['ignored_present'].append(p)
        if std and not catlist:
            roles['manifest_dirs'].append('metadata/md5-cache')
            tree.append({'p': 'metadata/md5-cache', 'k': 'dir'})
        if (std or rng.random() < 0.6) and catlist:
            roles['manifest_dirs'].append('metadata/md5-cache')
            tree.append({'p': 'metadata/md5-cache', 'k': 'dir'})
            for c in rng.sample(catlist, rng.randrange(0 if std else 1, len(catlist) + 1)):
                roles['manifest_dirs'].append('metadata/md5-cache/' + c)
                tree.append({'p': 'metadata/md5-cache/' + c, 'k': 'dir'})
                for n in rng.sample(['foo-1.0', 'bar-2', 'baz-3'], rng.choice([0, 1, 2])):
                    add('metadata/md5-cache/%s/%s' % (c, n))
            if rng.random() < 0.3 and not portable:
                # not an ignored name here: the documented defaults cover metadata/ and four of its
                # sub-directories, not the cache
                add('metadata/md5-cache/' + rng.choice(['timestamp.chk', 'timestamp.commit']), 'cache ts\n')
        if rng.random() < 0.4:
            p = 'metadata/' + rng.choice(META_IGN)
            tree.append({'p': p, 'k': 'file', 'c': 'ts\n'})
            roles['ignored_present'].append(p)
    # plain directories that get no Manifest of their own (their files belong to the Manifest above them)
    if rng.random() < cfg.get('p_plain_dirs', 0.3):
        for p in rng.sample(['scripts/bootstrap.sh', 'scripts/fixup.sh', 'metadata/install-qa-check.d/60python',
                             'zz-local-notes/README', 'aaa-first/x',
                             # names that are IGNOREd at the top level, met deeper down (where they are ordinary files)
                             'scripts/packages', 'zz-local-notes/distfiles'], rng.choice([1, 2, 3])):
            if p.startswith('metadata/') and 'metadata' not in roles['manifest_dirs']:
                continue
            add(p)
    # ignored top-level things
    if not cfg.get('no_ignored_dirs'):
        for d in TOP_IGNORED:
            if rng.random() < 0.3:
                p = d + '/some-file'
                tree.append({'p': p, 'k': 'file', 'c': 'x'})
                roles['ignored_present'].append(p)
    # loose top-level files
    for n in rng.sample(['header.txt', 'skel.ebuild', 'skel.metadata.xml'], rng.choice([0, 1, 2])):
        add(n)
    for p in roles['files']:
        roles['tags'].setdefault(p, 'DATA')
    roles['manifest_dirs'] = sorted(set(roles['manifest_dirs']))
    return {'tree': tree, 'roles': roles}


def expected_ignores(mdir):
    if mdir == '':
        return TOP_IGNORED
    if mdir == 'metadata':
        return META_IGN
    if mdir in ('metadata/dtd', 'metadata/glsa', 'metadata/news', 'metadata/xml-schema'):
        return METASUB_IGN
    return ()
