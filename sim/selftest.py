"""Self-tests of the machinery itself.

  ./check selftest-determinism [--n N]   every property: the same sub-seeds executed twice in this process, once in a
                                         fresh interpreter under another PYTHONHASHSEED, and inside a 16-worker and a
                                         3-worker fork pool; all digests must agree.
  ./check selftest-mutants [--n N]       every patch under /verif/mutants (and /verif/seeded/*/patch.diff) is applied to a
                                         scratch copy of /repo; the property check named in mutants/EXPECT.json must exit 1
                                         with a replay that reproduces (equivalent mutants are listed there as such).
  ./check selftest-refactors             behaviour-preserving patches under /verif/refactors must leave every check silent.
"""
import concurrent.futures as cf
import json
import multiprocessing
import os
import random
import shutil
import subprocess
import sys
import tempfile
import time

from . import runner

VERIF = runner.VERIF
PROPS = ['C01', 'C02', 'C03', 'C04', 'C05', 'C06', 'C07', 'C10', 'C11', 'C12', 'C13', 'C14', 'C15', 'C16', 'C17',
         'C18', 'C19', 'C20']


def _digest(args):
    prop, seed, tier, i = args
    mod = runner.load_prop(prop)
    sc = mod.generate(random.Random(runner.subseed(seed, prop, i)), tier, i)
    return mod.execute(sc)['digest']


def digests_cmd(prop, n, seed):
    out = [_digest((prop, seed, 'quick', i)) for i in range(n)]
    print('DIGESTS ' + json.dumps(out))
    return 0


def determinism(a):
    n = a.n or 24
    seed = a.seed
    props = PROPS
    bad = 0
    total = 0
    t0 = time.time()
    for prop in props:
        shared_home = None
        if getattr(runner.load_prop(prop), 'NEEDS_GPG', False) and not os.environ.get('VERIF_SIGNER_HOME'):
            # one signer keyring (and gpg-agent) for all legs of this property, as in a normal batch
            from sim import gpgsim
            shared_home = gpgsim.signer_home()
            os.environ['VERIF_SIGNER_HOME'] = shared_home
        try:
            bad += _determinism_one(prop, n, seed)
        finally:
            if shared_home is not None:
                os.environ.pop('VERIF_SIGNER_HOME', None)
            runner._cleanup_peers()
        total += (max(2, n // 8) if prop in ('C06', 'C10') else n) * 5
    print('determinism self-test: %d executions, %d properties diverged, %.0fs' % (total, bad, time.time() - t0))
    if bad:
        print('HARNESS-ERROR: nondeterminism')
        return 2
    return 0


def _determinism_one(prop, n, seed):
    bad = 0
    if True:
        if prop in ('C06', 'C10'):
            k = max(2, n // 8)       # each run is a whole fault enumeration
        else:
            k = n
        args = [(prop, seed, 'quick', i) for i in range(k)]
        d1 = [_digest(x) for x in args]
        d2 = [_digest(x) for x in args]
        env = dict(os.environ, PYTHONHASHSEED='12345')
        p = subprocess.run([sys.executable, os.path.join(VERIF, 'sim', 'main.py'), 'selftest-digests:' + prop,
                            '--n', str(k), '--seed', str(seed)], env=env, capture_output=True, text=True, timeout=1800)
        d3 = None
        for line in p.stdout.splitlines():
            if line.startswith('DIGESTS '):
                d3 = json.loads(line[8:])
        ctx = multiprocessing.get_context('fork')
        with cf.ProcessPoolExecutor(max_workers=16, mp_context=ctx) as ex:
            d4 = list(ex.map(_digest, args))
        with cf.ProcessPoolExecutor(max_workers=3, mp_context=ctx) as ex:
            d5 = list(ex.map(_digest, args))
        names = ['same-process', 'fresh-interpreter-hashseed-12345', 'pool-16', 'pool-3']
        ok = True
        for nm, d in zip(names, (d2, d3, d4, d5)):
            if d != d1:
                ok = False
                where = [i for i in range(k) if d is None or i >= len(d) or d[i] != d1[i]][:5]
                print('DIVERGENCE %s %s at indices %r' % (prop, nm, where))
                if d is None:
                    print(p.stdout[-500:], p.stderr[-500:])
        bad += 0 if ok else 1
        print('%s: %d sub-seeds x 5 executions %s' % (prop, k, 'identical' if ok else 'DIVERGED'))
        sys.stdout.flush()
    return bad


def _copy_repo(dst):
    repo = os.environ.get('VERIF_REPO', '/repo')
    files = subprocess.run(['git', '-C', repo, 'ls-files', '-z'], capture_output=True, check=True).stdout.split(b'\0')
    for f in files:
        if not f:
            continue
        f = f.decode()
        os.makedirs(os.path.dirname(os.path.join(dst, f)), exist_ok=True)
        shutil.copy2(os.path.join(repo, f), os.path.join(dst, f))


def mutants(a):
    exp_path = os.path.join(VERIF, 'mutants', 'EXPECT.json')
    with open(exp_path) as f:
        expect = json.load(f)
    rc = 0
    rows = []
    for name, e in sorted(expect.items()):
        patch = os.path.join(VERIF, e.get('patch', os.path.join('mutants', name)))
        d = tempfile.mkdtemp(prefix='vmut.')
        try:
            _copy_repo(d)
            p = subprocess.run(['patch', '-p1', '-s', '-i', patch], cwd=d, capture_output=True, text=True)
            if p.returncode != 0:
                p2 = subprocess.run(['git', 'apply', patch], cwd=d, capture_output=True, text=True)
                if p2.returncode != 0:
                    rows.append((name, 'PATCH-DOES-NOT-APPLY', ''))
                    rc = 2
                    continue
            for prop in e['detected_by']:
                env = dict(os.environ, VERIF_REPO=d, VERIF_SEED=str(a.seed))
                q = subprocess.run([os.path.join(VERIF, 'check'), prop, '--tier', 'quick'], env=env, capture_output=True, text=True, timeout=3600)
                got = q.returncode
                want = 0 if e.get('equivalent') else 1
                # a mutant that keeps state in module globals makes runs depend on the worker's history: the check
                # then reports the violation AND its own determinism alarm (exit 2); that still counts as detected
                if want == 1 and got == 2 and 'VIOLATION property=' in q.stdout:
                    got = 1
                status = 'ok' if got == want else 'UNEXPECTED(exit %d, want %d)' % (got, want)
                if got != want:
                    rc = 2
                viol = [l for l in q.stdout.splitlines() if l.startswith('violated clause')][:1]
                rows.append((name, '%s:%s' % (prop, status), viol[0][:110] if viol else ''))
        finally:
            shutil.rmtree(d, ignore_errors=True)
    for r in rows:
        print('%-44s %-28s %s' % r)
    print('mutant self-test: %d rows, %s' % (len(rows), 'all as expected' if rc == 0 else 'MISMATCHES'))
    return rc


def refactors(a):
    """behaviour-preserving patches: every check must stay silent"""
    rc = 0
    rd = os.path.join(VERIF, 'refactors')
    for name in sorted(os.listdir(rd)):
        if not name.endswith('.patch'):
            continue
        d = tempfile.mkdtemp(prefix='vref.')
        try:
            _copy_repo(d)
            p = subprocess.run(['patch', '-p1', '-s', '-i', os.path.join(rd, name)], cwd=d, capture_output=True, text=True)
            if p.returncode != 0:
                print('%-36s PATCH-DOES-NOT-APPLY' % name)
                rc = 2
                continue
            b = subprocess.run([sys.executable, os.path.join(VERIF, 'tools', 'baseline_check.py'), d], capture_output=True, text=True)
            suite = b.stdout.splitlines()[0] if b.stdout else '?'
            loud = []
            for prop in PROPS:
                env = dict(os.environ, VERIF_REPO=d, VERIF_SEED=str(a.seed))
                q = subprocess.run([os.path.join(VERIF, 'check'), prop, '--tier', 'quick'], env=env, capture_output=True, text=True, timeout=3600)
                if q.returncode != 0:
                    loud.append('%s(exit %d)' % (prop, q.returncode))
            print('%-36s suite[%s] %s' % (name, suite, 'all 18 checks silent' if not loud else 'ALARMS: ' + ' '.join(loud)))
            if loud:
                rc = 2
        finally:
            shutil.rmtree(d, ignore_errors=True)
    return rc


def main(name, a):
    if name.startswith('selftest-digests:'):
        return digests_cmd(name.split(':', 1)[1], a.n or 8, a.seed)
    if name == 'selftest-determinism':
        return determinism(a)
    if name == 'selftest-mutants':
        return mutants(a)
    if name == 'selftest-refactors':
        return refactors(a)
    print('unknown self-test ' + name)
    return 2
