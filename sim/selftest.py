def main(name, args):
    print('not implemented yet')
    return 2
