"""History machine for the update-side properties (C03, C10, C12, C13).

A scenario is a prior tree + prior Manifest state and a list of rounds; each
round applies file edits and then runs one update (library or CLI) under the
seam.  After every update the clauses of all four properties are evaluated;
each property module reports the clause families it owns.
"""
import os

from gemato.recursiveloader import ManifestRecursiveLoader
from gemato.profile import get_profile_by_name

from . import grammar as G
from .common import call, run_cli, viol, cli_as_call
from .model import Model, audit, logical_name, psw, pjoin, probe, cli_discovers_root_top
from .oracles import describe
from .seam import Seam, Clock, orig as _o
from .world import World, blocking_manifest

MANIFEST_WRITE_KINDS = ('open.w', 'os.open.w', 'write', 'unlink', 'truncate', 'rename')


def is_manifest_path(rel):
    b = os.path.basename(rel or '')
    return b == 'Manifest' or b.startswith('Manifest.') or b.startswith('Manifest-')


def in_use_manifests(root, top):
    """path -> parsed entries for every Manifest reachable from the top
    (no verification), None for unparseable ones."""
    m = Model(root, top)
    out = {}
    fi = probe(os.path.join(root, top), want_data=False)
    if not fi.exists or fi.kind != 'file':
        return out
    try:
        ents, _ = m.read_manifest(top)
    except OSError:
        return out
    out[top] = ents
    work = [top]
    while work:
        mp = work.pop(0)
        if out[mp] is None:
            continue
        md = os.path.dirname(mp)
        for e in out[mp]:
            if e['tag'] != 'MANIFEST':
                continue
            full = os.path.normpath(pjoin(md, e['path']))
            if full in out:
                continue
            fi = probe(os.path.join(root, full), want_data=False)
            if not fi.exists or fi.kind != 'file':
                continue
            try:
                sub, _ = m.read_manifest(full)
            except OSError:
                continue
            out[full] = sub
            work.append(full)
    return out


def ekey(e):
    t = e['tag']
    if t == 'TIMESTAMP':
        return (t, e['ts'])
    if t == 'IGNORE':
        return (t, e['path'])
    return (t, e['path'], e['size'], tuple(sorted(e['sums'].items())))


def do_update(w, seam, u, op_index, top='Manifest', session=None):
    """Run one update under the seam.  Returns (result, info)."""
    root = w.root
    api = u.get('api', 'lib')
    path = u.get('path', '')
    info = {'scan_writes': []}
    kw = {}
    if u.get('hashes') is not None:
        kw['hashes'] = list(u['hashes'])
    if u.get('sort') is not None:
        kw['sort'] = u['sort']
    if u.get('watermark') is not None:
        kw['compress_watermark'] = u['watermark']
    if u.get('format') is not None:
        kw['compress_format'] = u['format']
    prof = u.get('profile')
    with seam:
        seam.begin_op(op_index)
        if api == 'lib':
            def run():
                k = dict(kw)
                if prof:
                    k['profile'] = get_profile_by_name(prof)
                if u.get('create'):
                    k['allow_create'] = True
                if u.get('reuse') and session is not None and session.get('m') is not None:
                    m = session['m']
                    info['reused_loader'] = True
                else:
                    m = ManifestRecursiveLoader(os.path.join(root, top), **dict(k, **_lkw()))
                if session is not None:
                    session['m'] = None
                if u.get('pre_verify') is not None:
                    # read-only calls on the SAME loader before it updates: they must leave no trace in what is saved
                    try:
                        m.assert_directory_verifies(u['pre_verify'], fail_handler=lambda e_: False)
                    except Exception:
                        pass
                    try:
                        m.find_path_entry(u.get('pre_lookup', 'x'))
                        m.find_timestamp()
                    except Exception:
                        pass
                    info['pre_verify'] = True
                lm = u.get('last_mtime')
                ukw = {}
                if lm is not None:
                    ukw['last_mtime'] = lm
                m.update_entries_for_directory(path, **ukw)
                info['scan_writes'] = list(seam.write_events)
                seam.begin_op(op_index + 1)
                skw = {}
                if u.get('force'):
                    skw['force'] = True
                m.save_manifests(**skw)
                if session is not None:
                    session['m'] = m
                return True
            r = call(run)
        else:
            argv = ['create' if u.get('create') else 'update']
            if u.get('hashes') is not None:
                argv += ['-H', ' '.join(u['hashes'])]
            if u.get('watermark') is not None:
                argv += ['-c', str(u['watermark'])]
            if u.get('format') is not None:
                argv += ['-C', u['format']]
            if u.get('force'):
                argv += ['-f']
            if prof:
                argv += ['-p', prof]
            if u.get('timestamp'):
                argv += ['-t']
            if u.get('incremental'):
                argv += ['-i']
            argv += [os.path.join(root, path) if path else root]
            if u.get('path2') and path:
                argv += [os.path.join(root, u['path2'])]      # one invocation, two directories below one top-level Manifest
            import gemato.cli
            from .seam import make_datetime_shim
            old_dt = gemato.cli.datetime
            gemato.cli.datetime = make_datetime_shim(seam.clock)    # TIMESTAMP must not read the real clock
            try:
                c = run_cli(argv, tz=u.get('tz'))
            finally:
                gemato.cli.datetime = old_dt
            r = cli_as_call(c)
            info['cli'] = c
    return r, info


def run_readonly_op(w, po, top):
    import gc
    tp = os.path.join(w.root, top)
    kind = po['op']
    if kind == 'verify':
        return call(lambda: ManifestRecursiveLoader(tp, **_lkw()).assert_directory_verifies(po.get('sub', '')))
    if kind == 'verify-kg':
        return call(lambda: ManifestRecursiveLoader(tp, **_lkw()).assert_directory_verifies(po.get('sub', ''), fail_handler=lambda e: False))
    if kind == 'lookup':
        def lk():
            m = ManifestRecursiveLoader(tp, **_lkw())
            m.find_path_entry(po.get('path', 'x'))
            m.verify_path(po.get('path', 'x'))
            m.find_dist_entry('dist-0.tar', os.path.dirname(po.get('path', '')))
            m.find_timestamp()
            return True
        return call(lk)
    if kind == 'discard':
        def dc():
            m = ManifestRecursiveLoader(tp, hashes=po.get('hashes', ['SHA256']), sort=True, compress_watermark=0, **_lkw())
            m.update_entries_for_directory(po.get('sub', ''))
            m.set_timestamp(__import__('datetime').datetime(2021, 1, 1))
            del m
            gc.collect()
            return True
        return call(dc)
    if kind == 'cli-verify':
        return cli_as_call(run_cli(['verify', w.root]))
    raise ValueError(kind)


def effective_hashes(u):
    if u.get('hashes') is not None:
        return list(u['hashes'])
    if u.get('profile') in ('ebuild', 'old-ebuild'):
        return ['BLAKE2B', 'SHA512']
    return None


_ENV = {'env': None}


def _lkw():
    """constructor arguments every loader of the current history gets (the shared OpenPGP environment of a signed tree)"""
    return {'openpgp_env': _ENV['env']} if _ENV['env'] is not None else {}


def run_history(sc, want_idempotence=True, faults=None, audits=True):
    """Execute the history.  With sc['signed_top'] the top-level Manifest starts out validly signed (real gpg behind the
    proxy, test key, fixed peer time) and every loader of the history shares one OpenPGP environment object."""
    if not sc.get('signed_top'):
        return _run_history(sc, want_idempotence, faults, audits)
    from . import gpgsim as GS
    from gemato.openpgp import SystemGPGEnvironment
    old_home = os.environ.get('GNUPGHOME')
    os.environ['GNUPGHOME'] = GS.signer_home()
    _ENV['env'] = SystemGPGEnvironment()
    try:
        with GS.RealPeer(faketime=GS.SIGN_TIME):
            return _run_history(sc, want_idempotence, faults, audits)
    finally:
        _ENV['env'] = None
        if old_home is None:
            os.environ.pop('GNUPGHOME', None)
        else:
            os.environ['GNUPGHOME'] = old_home


def _run_history(sc, want_idempotence=True, faults=None, audits=True):
    """Execute the history.  Returns dict(violations, seam list, counters, zones, outcome)."""
    violations = []
    counters = {}
    zones = {}
    outcome = []
    results = []
    os_genuine = []
    top = sc.get('top', 'Manifest')
    with World(sc) as w:
        w.build()
        if sc.get('signed_top') and _ENV['env'] is not None:
            from . import gpgsim as GS
            tp_ = os.path.join(w.root, top)
            try:
                with _o['open'](tp_, 'r', encoding='utf8') as f:
                    plain_ = f.read()
                st_ = _o['os.stat'](tp_)
                with _o['open'](tp_, 'w', encoding='utf8') as f:
                    f.write(GS.clearsign(plain_, key='signer'))
                _o['os.utime'](tp_, ns=(st_.st_atime_ns, st_.st_mtime_ns))
                counters['histories_with_a_signed_top_level'] = 1
            except (OSError, UnicodeDecodeError):
                pass
        clock = Clock(epoch_ns=w.epoch_ns + 10_000_000_000 + int(sc.get('clock_offset_s', 0)) * 10**9,
                      key=sc['order_key'], mode='micro')
        seam = Seam(w.root, order_key=sc['order_key'], virtual_root=True, clock=clock, faults=faults, patch_time=True,
                    read_chunks=sc.get('chunks'))
        opi = 0
        update_ops = []
        session = {}
        for ri, rnd in enumerate(sc.get('rounds', [])):
            mf_before_edits = None
            if rnd.get('update', {}).get('reuse') and session.get('m') is not None:
                mf_before_edits = dict((k_, v_) for k_, v_ in w.snapshot(with_mtime=False).items() if is_manifest_path(k_))
            for m in rnd.get('edits', []):
                if 'mt' not in m and not m.get('keep_mtime'):
                    m = dict(m, now_ns=clock.now_ns)
                w.mutate(m)
                clock.advance(1_000_000)
            if blocking_manifest(w.root):
                zones['fifo-manifest'] = zones.get('fifo-manifest', 0) + 1
                break
            for po in rnd.get('pre_ops', []):
                snapP = w.snapshot()
                nwe = len(seam.write_events)
                with seam:
                    seam.begin_op(opi)
                    rp = run_readonly_op(w, po, top)
                opi += 1
                results.append(rp)
                counters['pre_op.' + po['op']] = counters.get('pre_op.' + po['op'], 0) + 1
                if rp[0] == 'INTERNAL':
                    violations.append(viol('I-internal', 'internal error escaped: %s: %s [%r]' % (rp[1], rp[2], po), sig=rp[1]))
                if seam.write_events[nwe:] or w.snapshot() != snapP:
                    violations.append(viol('own.readonly-op-wrote', '%r wrote: %r' % (po, seam.write_events[nwe:nwe + 4]), sig=po['op']))
            if 'update' not in rnd:
                continue
            u = rnd['update']
            scope = u.get('path', '')
            if u.get('path2') and (u.get('api') != 'cli' or not scope or u.get('create') or
                                   psw(u['path2'], scope) or psw(scope, u['path2']) or      # (nested: the two updates undo each other under an IGNORE)
                                   not os.path.isdir(os.path.join(w.root, u['path2'])) or
                                   not cli_discovers_root_top(w.root, u['path2'])):
                u = dict(u)
                u.pop('path2')
            if u.get('api') == 'cli' and not u.get('create') and not cli_discovers_root_top(w.root, scope):
                # upward discovery would not land on this tree's top-level Manifest (C15's subject)
                zones['cli-discovery-elsewhere'] = zones.get('cli-discovery-elsewhere', 0) + 1
                u = dict(u, api='lib')
                u.pop('path2', None)
            scopes = [scope] + ([u['path2']] if u.get('path2') else [])
            if len(scopes) > 1:
                counters['cli_updates_naming_two_directories'] = counters.get('cli_updates_naming_two_directories', 0) + 1
            before = in_use_manifests(w.root, top)
            if u.get('wm_of'):
                # symbolic watermark: current uncompressed size of a Manifest + delta
                ln, delta = u['wm_of']
                cands = sorted(b for b in before if logical_name(b) == ln) or sorted(b for b in before if b != top) or [top]
                try:
                    usz = len(G.decompress(w.read(cands[0]), G.comp_of(cands[0])))
                except Exception:
                    usz = 100
                u = dict(u, watermark=max(0, usz + delta))
                counters['watermark_at_size%+d' % delta] = counters.get('watermark_at_size%+d' % delta, 0) + 1
            # MANIFEST references that are already stale before the operation starts
            stale_before = set()
            from .model import entry_matches as _em
            for bmp, bents in before.items():
                for be in (bents or []):
                    if be['tag'] == 'MANIFEST':
                        bfull = os.path.normpath(pjoin(os.path.dirname(bmp), be['path']))
                        if _em(probe(os.path.join(w.root, bfull)), be) is not None:
                            stale_before.add(bfull)
            snap0 = w.snapshot()
            valid_before = set(before)
            valid_before_ents = {}
            _m = Model(w.root, top)
            for k0, v0 in snap0.items():
                if v0[0] == 'file' and is_manifest_path(k0) and k0 not in valid_before:
                    try:
                        ents0 = _m.read_manifest(k0)[0]
                        if ents0 is not None:
                            valid_before.add(k0)
                            valid_before_ents[k0] = ents0
                    except Exception:
                        pass
            if u.get('reuse') and mf_before_edits is not None and \
                    mf_before_edits != dict((k_, v_) for k_, v_ in w.snapshot(with_mtime=False).items() if is_manifest_path(k_)):
                u = dict(u, reuse=False)      # somebody else rewrote or removed a Manifest: a cached loader is legitimately stale
                counters['reuse_cancelled_manifest_changed_by_edit'] = counters.get('reuse_cancelled_manifest_changed_by_edit', 0) + 1
            n0_ = seam.n
            r, info = do_update(w, seam, u, opi, top, session)
            update_ops.append((n0_, seam.n))      # seam calls n0 < n <= n1 were made by this update
            if u.get('api', 'lib') != 'lib':
                session['m'] = None
            if info.get('pre_verify'):
                counters['updates_after_verification_on_the_same_loader'] = counters.get('updates_after_verification_on_the_same_loader', 0) + 1
            if info.get('reused_loader'):
                counters['rounds_on_a_reused_loader'] = counters.get('rounds_on_a_reused_loader', 0) + 1
            if r[0] == 'OS':
                from .common import genuine_oserror
                os_genuine.append((r[1], getattr(r[2], 'filename', None), genuine_oserror(r[2])))
            opi += 2
            snap1 = w.snapshot()
            results.append(r)
            name = r[1] if r[0] != 'ok' else repr(r[1])
            outcome.append(['round', ri, u.get('api', 'lib'), scope, r[0], str(name)[:60]])
            counters['update.' + r[0]] = counters.get('update.' + r[0], 0) + 1
            what = 'round %d update(%s)' % (ri, ','.join('%s=%r' % kv for kv in sorted(u.items())))
            # ---- C10: ownership (evaluated whether or not the update succeeded)
            changed = sorted(k for k in set(snap0) | set(snap1) if snap0.get(k) != snap1.get(k))
            foreign = [c for c in changed if not is_manifest_path(c)]
            if foreign:
                violations.append(viol('own.non-manifest-touched', '%s changed non-Manifest objects %r' % (what, foreign[:5]), sig='snapshot'))
            # a file that merely carries a Manifest-like name: not a Manifest in use, not even parseable as one, and not
            # written by this operation - yet gone afterwards
            wr_all = set(p_ for e_ in seam.write_events if e_[0] >= opi - 2 and e_[1] in ('open.w', 'write', 'rename') for p_ in e_[2].split(' -> '))
            gone = [c for c in changed if is_manifest_path(c) and c in snap0 and c not in snap1 and snap0[c][0] == 'file'
                    and c not in before and c not in valid_before and c not in wr_all]
            if gone:
                violations.append(viol('own.non-manifest-touched', '%s removed %r, a data file that only has a Manifest-like name' % (what, gone[:5]), sig='name-alike-removed'))
            # a Manifest-LIKE name does not make a file a Manifest: only the five Manifest names or a MANIFEST reference do
            alike = [c for c in changed if is_manifest_path(c) and os.path.basename(c) not in G.MANIFEST_NAMES and c not in before
                     and c in snap0 and snap0[c][0] == 'file']
            if alike:
                violations.append(viol('own.non-manifest-touched', '%s changed or removed %r, data files that only have a Manifest-like name '
                                       '(not one of the Manifest names, referenced by no Manifest)' % (what, alike[:5]), sig='name-alike-changed'))
            wev = [e for e in seam.write_events if e[0] >= opi - 2]
            bad = [e for e in wev if not all(is_manifest_path(p) for p in e[2].split(' -> '))]
            if bad:
                violations.append(viol('own.non-manifest-written', '%s issued write-side calls on %r' % (what, bad[:5]), sig=bad[0][1]))
            if info.get('scan_writes') is not None:
                sw = [e for e in info['scan_writes'] if e[0] >= opi - 2]
                if sw:
                    violations.append(viol('own.write-before-save', '%s wrote during the scan phase: %r' % (what, sw[:5]), sig=sw[0][1]))
            if r[0] != 'ok':
                if changed and u.get('api', 'lib') == 'lib' and r[0] in ('GE', 'OS') and not info.get('scan_writes') and \
                        not [e for e in seam.write_events if e[0] == opi - 1]:
                    violations.append(viol('own.failed-update-wrote', '%s failed (%s) yet changed %r' % (what, describe(r), changed[:5]), sig=r[1]))
                if r[0] == 'INTERNAL':
                    violations.append(viol('I-internal', 'internal error escaped: %s: %s [%s]' % (r[1], r[2], what), sig=r[1]))
                # the premise "completes without error" is false: nothing more to audit
                break
            after = in_use_manifests(w.root, top)
            # ---- C10: entry preservation
            bl = {}
            for mp, ents in before.items():
                if ents is not None:
                    bl[logical_name(mp)] = ents
            al = {}
            for mp, ents in after.items():
                if ents is not None:
                    al[logical_name(mp)] = ents
            for ln, ents in bl.items():
                if ln not in al:
                    continue
                akeys = [ekey(e) for e in al[ln]]
                for e in ents:
                    if e['tag'] in ('DIST', 'IGNORE') and ekey(e) not in akeys:
                        violations.append(viol('own.entry-lost', '%s: %s lost %r' % (what, ln, ekey(e)[:2]), sig=e['tag']))
                    if e['tag'] == 'TIMESTAMP':
                        ats = [x for x in al[ln] if x['tag'] == 'TIMESTAMP']
                        if not ats:
                            violations.append(viol('own.entry-lost', '%s: %s lost its TIMESTAMP' % (what, ln), sig='TIMESTAMP'))
                        elif (u.get('api', 'lib') == 'lib' or ((scope or u.get('create')) and not u.get('timestamp'))) and ats[0]['ts'] != e['ts']:
                            # (the CLI refreshes an existing TIMESTAMP on a whole-tree update only; `create` writes one only
                            # when asked to)
                            violations.append(viol('own.timestamp-changed', '%s: TIMESTAMP %s -> %s without being asked' % (what, e['ts'], ats[0]['ts']), sig='TIMESTAMP'))
            # entry type of existing, uniquely listed files
            prior = {}
            before_all = dict(before)
            for vb in valid_before:
                # (only names the unregistered-Manifest scan looks for can be adopted by the update)
                if vb not in before_all and os.path.basename(vb) in G.MANIFEST_NAMES and vb in valid_before_ents and \
                        any(psw(os.path.dirname(vb), s_) for s_ in scopes):
                    # (the scan for unregistered Manifests covers the updated directory only: one lying above it stays
                    # unknown to a sub-directory update)
                    before_all[vb] = valid_before_ents[vb]     # unregistered but valid: update will adopt it
            for mp, ents in before_all.items():
                if ents is None:
                    continue
                for e in ents:
                    if e['tag'] in ('DATA', 'MISC', 'EBUILD', 'AUX', 'MANIFEST'):
                        prior.setdefault(os.path.normpath(pjoin(os.path.dirname(mp), e['path'])), []).append(e['tag'])
            post = {}
            for mp, ents in after.items():
                if ents is None:
                    continue
                for e in ents:
                    if e['tag'] in ('DATA', 'MISC', 'EBUILD', 'AUX', 'MANIFEST'):
                        post.setdefault(os.path.normpath(pjoin(os.path.dirname(mp), e['path'])), []).append(e['tag'])
            for p, tags in prior.items():
                if len(tags) == 1 and p in post and len(post[p]) == 1 and post[p][0] != tags[0]:
                    if tags[0] == 'MANIFEST' or post[p][0] == 'MANIFEST':
                        continue
                    violations.append(viol('own.entry-type-changed', '%s: %r was %s, now %s' % (what, p, tags[0], post[p][0]), sig='%s->%s' % (tags[0], post[p][0])))
            # out-of-scope entries on a sub-directory update
            written_now = set(p_ for e_ in seam.write_events if e_[0] >= opi - 2 for p_ in e_[2].split(' -> '))
            if scope and len(scopes) == 1:
                for ln, ents in bl.items():
                    if ln not in al:
                        continue
                    md = os.path.dirname(ln)
                    def outside(e):
                        if e['tag'] in ('TIMESTAMP', 'DIST'):
                            return False
                        full = os.path.normpath(pjoin(md, e['path']))
                        if psw(full, scope):
                            return False
                        if e['tag'] == 'MANIFEST':
                            # exempt: the chain above the scope (Manifests whose directory covers it) and any
                            # Manifest this operation wrote itself; a reference to a sibling's Manifest is not
                            tdir = os.path.dirname(full)
                            if psw(scope, tdir) or full in written_now:
                                return False
                            return True
                        return True
                    b = sorted(repr(ekey(e)) for e in ents if outside(e))
                    a2 = sorted(repr(ekey(e)) for e in al[ln] if outside(e))
                    if b != a2:
                        diff = sorted(set(b) ^ set(a2))
                        violations.append(viol('own.out-of-scope-entry', '%s (scope %r): %s entries outside the scope changed: %s' % (
                            what, scope, ln, diff[:3]), sig='out-of-scope'))
            if not audits:
                # (an update that completed although a fault was injected into it: ownership and entry preservation are
                # still owed, the audit of the result is C03's and C06's business)
                clock.advance(3_000_000_000)
                continue
            # ---- C03: audit + fresh verification
            eh = effective_hashes(u)
            if u.get('last_mtime') is not None or u.get('incremental'):
                eh = None
            wr_now = set(e[2] for e in seam.write_events if e[0] >= opi - 2 and e[1] == 'open.w')
            for scope in scopes:
                a = audit(w.root, top, scope, eh, prior_in_use=set(before), written=wr_now)
                nprob = 0
                for code, p, detail in a.problems:
                    if scope and code == 'manifest-entry-stale' and p in stale_before and p not in wr_now:
                        # a sub-directory update does not answer for references outside its scope that were
                        # stale before it started and that it did not rewrite
                        zones['subdir-update:stale-reference-outside-scope'] = zones.get('subdir-update:stale-reference-outside-scope', 0) + 1
                        continue
                    nprob += 1
                    if nprob <= 4:
                        violations.append(viol('audit.' + code, '%s: %s %r %s' % (what, code, p, detail), sig=code))
                counters['audited_updates'] = counters.get('audited_updates', 0) + 1
                mv = Model(w.root, top).verdict(scope)
                with seam:
                    seam.begin_op(opi)
                    rv = call(lambda: ManifestRecursiveLoader(os.path.join(w.root, top), **_lkw()).assert_directory_verifies(scope))
                opi += 1
                results.append(rv)
                if rv[0] == 'INTERNAL':
                    violations.append(viol('I-internal', 'internal error escaped: %s: %s [verify after %s]' % (rv[1], rv[2], what), sig=rv[1]))
                elif not (rv[0] == 'ok' and rv[1] is True):
                    if mv.kind in ('DONTCARE',) and not (scope == '' and set(mv.zones) == {'non-normalised-entry-path'}):
                        zones['verify-after-update:' + ','.join(sorted(set(mv.zones)))] = 1
                    elif mv.kind in ('DONTCARE',):
                        # the model is silent about entries whose path is written in a non-canonical form - the statement is
                        # not: after a completed update of the WHOLE tree gemato's own fresh verification has to succeed
                        violations.append(viol('audit.verify-after-update', '%s: fresh verification %s (entries with non-canonical paths left in the Manifests)' % (
                            what, describe(rv)), sig='%s:%s:noncanonical' % (rv[0], rv[1])))
                    elif scope and mv.kind == 'CHAIN' and all(c in stale_before and c not in wr_now for c in mv.chain):
                        zones['subdir-update:stale-reference-outside-scope'] = zones.get('subdir-update:stale-reference-outside-scope', 0) + 1
                    else:
                        violations.append(viol('audit.verify-after-update', '%s: fresh verification %s (model: %s %r)' % (
                            what, describe(rv), mv.kind, dict(list(mv.offending.items())[:3]) or mv.chain), sig='%s:%s' % (rv[0], rv[1])))
                elif mv.kind not in ('OK', 'DONTCARE'):
                    violations.append(viol('audit.model-disagrees', '%s: gemato verifies but the model says %s %r' % (
                        what, mv.kind, dict(list(mv.offending.items())[:3]) or mv.chain), sig=mv.kind))
            opi -= len(scopes) - 1       # (op numbering stays one verification per round)
            scope = scopes[0]
            # ---- C13: watermark / one file per logical Manifest
            wm = u.get('watermark')
            if wm is None and u.get('profile') in ('ebuild', 'old-ebuild'):
                wm = 128
            if wm is not None:
                fmt = u.get('format') or 'gz'
                written = set()
                for e in seam.write_events:
                    if e[0] >= opi - 3 and e[1] == 'open.w':
                        written.add(e[2])
                for mp in after:
                    if mp not in written:
                        continue
                    raw = w.read(mp)
                    try:
                        unc = len(G.decompress(raw, G.comp_of(mp)))
                    except Exception:
                        continue
                    comp = G.comp_of(mp)
                    is_top_plain = (logical_name(mp) == 'Manifest' and os.path.dirname(mp) == '')
                    exempt = False
                    if u.get('profile') == 'old-ebuild' and any(e['tag'] == 'EBUILD' for e in (after[mp] or [])):
                        exempt = True
                    if is_top_plain:
                        if comp is not None and mp == top and G.comp_of(top) is None:
                            violations.append(viol('wm.top-level-compressed', '%s: top-level Manifest stored as %s' % (what, mp), sig='top'))
                        continue
                    if exempt:
                        if comp is not None:
                            violations.append(viol('wm.package-manifest-compressed', '%s: old-ebuild package Manifest %s compressed' % (what, mp), sig='old-ebuild'))
                        continue
                    want = unc >= wm
                    if want != (comp is not None):
                        violations.append(viol('wm.iff', '%s: %s has uncompressed size %d, watermark %d, stored %s' % (
                            what, mp, unc, wm, 'compressed' if comp else 'plain'), sig='want=%s' % want))
                    if want and comp is not None and len(scopes) == 1:
                        # (two directories in one invocation are two saves: a Manifest may legitimately be uncompressed
                        # by the first and compressed again, in the default format, by the second)
                        prev = sorted(b for b in valid_before if logical_name(b) == logical_name(mp))
                        prevc = G.comp_of(prev[0]) if prev else None
                        if prevc is not None and comp != prevc:
                            violations.append(viol('wm.format-not-kept', '%s: %s was %s, now %s' % (what, logical_name(mp), prevc, comp), sig='fmt'))
                        if prevc is None and comp != fmt:
                            violations.append(viol('wm.wrong-format', '%s: %s compressed as %s, requested %s' % (what, mp, comp, fmt), sig='fmt'))
            # ---- C12: idempotence
            if want_idempotence and not u.get('timestamp'):
                u2 = dict(u)
                u2.pop('force', None)
                u2.pop('create', None)
                if u.get('create') and u.get('api') == 'cli':
                    pass
                snapA = w.snapshot()
                nwe = len(seam.write_events)
                r2, info2 = do_update(w, seam, u2, opi, top)
                opi += 2
                snapB = w.snapshot()
                results.append(r2)
                if r2[0] == 'INTERNAL':
                    violations.append(viol('I-internal', 'internal error escaped: %s: %s [second %s]' % (r2[1], r2[2], what), sig=r2[1]))
                elif r2[0] != 'ok' and u2.get('api') == 'cli' and not cli_discovers_root_top(w.root, scope):
                    # the first update changed what upward discovery finds from this sub-directory (e.g. it un-compressed
                    # a Manifest whose IGNORE covers the start path): where discovery lands is C15's subject
                    zones['cli-discovery-elsewhere-after-update'] = zones.get('cli-discovery-elsewhere-after-update', 0) + 1
                elif r2[0] != 'ok':
                    violations.append(viol('idem.second-update-failed', 'second %s %s' % (what, describe(r2)), sig='%s:%s' % (r2[0], r2[1])))
                else:
                    we = seam.write_events[nwe:]
                    if we:
                        violations.append(viol('idem.rewrote', 'second %s on the unchanged tree wrote: %r' % (what, [(e[1], e[2]) for e in we[:6]]), sig=os.path.basename(we[0][2])))
                    elif snapA != snapB:
                        ch = sorted(k for k in set(snapA) | set(snapB) if snapA.get(k) != snapB.get(k))
                        violations.append(viol('idem.changed', 'second %s changed %r' % (what, ch[:5]), sig='snapshot'))
                counters['idempotence_checked'] = counters.get('idempotence_checked', 0) + 1
            clock.advance(3_000_000_000)
        final_snapshot = w.snapshot(content=True, with_mtime=False)
        written = sorted(set(e[2] for e in seam.write_events if e[1] == 'open.w'))
    return {'update_ops': update_ops, 'written': written, 'os_genuine': os_genuine, 'violations': violations, 'seams': [seam], 'counters': counters, 'zones': zones,
            'outcome': outcome, 'results': results, 'final': final_snapshot}
