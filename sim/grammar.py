"""M-grammar: an independent reader/writer for GLEP 74 Manifest text, for the
subset the harness writes itself and that gemato writes.  Imports nothing from
gemato.  Not a validator of arbitrary text (that would be property C09)."""
import bz2
import gzip
import hashlib
import lzma
import re

FILE_TAGS = ('DATA', 'MISC', 'EBUILD', 'AUX', 'MANIFEST')
HASHLIB_NAME = {
    'MD5': 'md5', 'SHA1': 'sha1', 'SHA256': 'sha256', 'SHA512': 'sha512',
    'RMD160': 'ripemd160', 'WHIRLPOOL': 'whirlpool', 'BLAKE2B': 'blake2b',
    'BLAKE2S': 'blake2s', 'SHA3_256': 'sha3_256', 'SHA3_512': 'sha3_512',
}
SUPPORTED_HASHES = tuple(sorted(k for k, v in HASHLIB_NAME.items()
                                if v in hashlib.algorithms_available))
COMPRESSIONS = (None, 'gz', 'bz2', 'lzma', 'xz')
MANIFEST_NAMES = ('Manifest', 'Manifest.gz', 'Manifest.bz2', 'Manifest.lzma',
                  'Manifest.xz')

_esc_needed = re.compile(r'[\x00-\x1f\x7f-\x9f\s\\]')
_esc_seq = re.compile(r'\\(x[0-9a-fA-F]{2}|u[0-9a-fA-F]{4}|U[0-9a-fA-F]{8})')


def enc_path(p):
    def r(m):
        cp = ord(m.group(0))
        if cp <= 0x7f:
            return '\\x%02X' % cp
        if cp <= 0xffff:
            return '\\u%04X' % cp
        return '\\U%08X' % cp
    return _esc_needed.sub(r, p)


def dec_path(s):
    return _esc_seq.sub(lambda m: chr(int(m.group(1)[1:], 16)), s)


def bad_escape(s):
    rest = _esc_seq.sub('', s)
    if '\\' in rest:
        return True
    for m in _esc_seq.finditer(s):
        v = int(m.group(1)[1:], 16)
        if v > 0x10ffff or 0xd800 <= v <= 0xdfff:      # (an escaped NUL is accepted by the reference parser)
            return True
    return False


def digests(content, hashes):
    out = {}
    for h in hashes:
        out[h] = hashlib.new(HASHLIB_NAME[h], content).hexdigest()
    return out


def entry_line(e):
    """e: dict(tag=..., path=..., size=..., sums={...}) or
    dict(tag='IGNORE', path) / dict(tag='TIMESTAMP', ts='...') /
    dict(raw='literal line')."""
    if 'raw' in e:
        return e['raw']
    t = e['tag']
    if t == 'TIMESTAMP':
        return 'TIMESTAMP ' + e['ts']
    if t == 'IGNORE':
        return 'IGNORE ' + enc_path(e['path'])
    p = e['path']
    if t == 'AUX':
        assert p.startswith('files/'), p
        p = p[6:]
    parts = [t, enc_path(p), str(e['size'])]
    for k in sorted(e['sums']):
        parts += [k, e['sums'][k]]
    return ' '.join(parts)


def dump(entries):
    return ''.join(entry_line(e) + '\n' for e in entries)


def parse(text):
    """Parse Manifest text (unsigned, or the payload lines).  Returns a list
    of entry dicts; AUX paths are returned with the files/ prefix.  Raises
    ValueError on lines it does not understand."""
    out = []
    for line in text.split('\n'):
        sl = line.split()
        if not sl:
            continue
        t = sl[0]
        if t == 'TIMESTAMP':
            if len(sl) != 2:
                raise ValueError(line)
            import datetime
            datetime.datetime.strptime(sl[1], '%Y-%m-%dT%H:%M:%SZ')   # ValueError if malformed
            out.append({'tag': t, 'ts': sl[1]})
        elif t == 'IGNORE':
            if len(sl) != 2:
                raise ValueError(line)
            p = dec_path(sl[1])
            if not p or p.startswith('/') or bad_escape(sl[1]):
                raise ValueError(line)
            out.append({'tag': t, 'path': p})
        elif t in FILE_TAGS or t == 'DIST':
            if len(sl) < 3 or (len(sl) - 3) % 2:
                raise ValueError(line)
            if not sl[2].isdigit() or not sl[2].isascii():
                raise ValueError(line)
            p = dec_path(sl[1])
            if not p or p.startswith('/') or bad_escape(sl[1]) or (t == 'DIST' and '/' in p):
                raise ValueError(line)
            if t == 'AUX':
                p = 'files/' + p
            sums = {}
            for i in range(3, len(sl), 2):
                sums[sl[i]] = sl[i + 1]
            out.append({'tag': t, 'path': p, 'size': int(sl[2]), 'sums': sums})
        else:
            raise ValueError(line)
    return out


def strip_signature(text):
    """Return (payload_text, signed?) for text that is either plain or one
    cleartext-signed block as gpg writes it."""
    lines = text.split('\n')
    if lines and lines[0] == '-----BEGIN PGP SIGNED MESSAGE-----':
        i = 1
        while i < len(lines) and lines[i].strip():
            i += 1
        i += 1
        body = []
        while i < len(lines) and lines[i] != '-----BEGIN PGP SIGNATURE-----':
            ln = lines[i]
            if ln.startswith('- '):
                ln = ln[2:]
            body.append(ln)
            i += 1
        return '\n'.join(body) + '\n', True
    return text, False


def comp_of(name):
    for c in ('gz', 'bz2', 'lzma', 'xz'):
        if name.endswith('.' + c):
            return c
    return None


def compress(data, comp):
    if comp is None:
        return data
    if comp == 'gz':
        return gzip.compress(data, mtime=0)
    if comp == 'bz2':
        return bz2.compress(data)
    if comp == 'lzma':
        return lzma.compress(data, format=lzma.FORMAT_ALONE)
    if comp == 'xz':
        return lzma.compress(data, format=lzma.FORMAT_XZ)
    raise ValueError(comp)


def lenient_decompresses(data, comp):
    """True if the stdlib file reader for the format yields text for these bytes although they are not exactly one
    complete stream (it ignores what follows the first stream)."""
    import io
    try:
        if comp == 'bz2':
            bz2.BZ2File(io.BytesIO(data)).read()
        elif comp == 'lzma':
            lzma.LZMAFile(io.BytesIO(data), format=lzma.FORMAT_ALONE).read()
        elif comp == 'xz':
            lzma.LZMAFile(io.BytesIO(data), format=lzma.FORMAT_XZ).read()
        else:
            return False
        return True
    except Exception:
        return False


def decompress(data, comp):
    if comp is None:
        return data
    if comp == 'gz':
        return gzip.decompress(data)
    if comp == 'bz2':
        d = bz2.BZ2Decompressor()
    elif comp == 'lzma':
        d = lzma.LZMADecompressor(format=lzma.FORMAT_ALONE)
    elif comp == 'xz':
        d = lzma.LZMADecompressor(format=lzma.FORMAT_XZ)
    else:
        raise ValueError(comp)
    # strict: exactly one complete stream and nothing after it
    out = d.decompress(data)
    if not d.eof or d.unused_data:
        raise ValueError('truncated stream or trailing data')
    return out
