"""Oracle clauses shared by several properties."""
from .common import viol


def describe(r):
    if r[0] == 'ok':
        return 'returned %r' % (r[1],)
    return '%s:%s (%s)' % (r[0], r[1], str(r[2])[:200])


def check_strict_verify(v, r, what='verify'):
    """v: model Verdict; r: call() result of assert_directory_verifies with
    the raising handler.  Returns (violations, zone or None)."""
    out = []
    k = v.kind
    if r[0] == 'INTERNAL':
        # reported by the I-internal invariant; not double counted here
        return out, None
    if r[0] == 'STEP-LIMIT':
        out.append(viol('verify.step-limit', '%s did not finish within the step cap' % what, sig='STEP-LIMIT'))
        return out, None
    if k == 'DONTCARE':
        return out, 'dontcare'
    if getattr(v, 'bad_refs', None) and r[0] == 'GE' and r[1] == 'ManifestMismatch' and r[2].path in v.bad_refs:
        # true mismatch of a Manifest file against an entry held for it; whether it surfaces at load time or later
        # depends on what the loader had loaded before
        return out, 'wrong-second-manifest-reference'
    if k == 'OK':
        if r[0] == 'ok' and r[1] is True:
            return out, None
        if getattr(v, 'bad_refs', None) and r[0] == 'GE' and r[1] == 'ManifestMismatch' and r[2].path in v.bad_refs:
            return out, 'wrong-second-manifest-reference'
        if v.maybe and r[0] == 'GE' and r[1] == 'ManifestMismatch' and r[2].path in v.maybe:
            return out, 'mtime-shortcut'
        if r[0] == 'GE' and r[1] == 'UnsupportedHash' and getattr(v, 'unsupported', False):
            # an accepted Manifest holds an entry with a hash this installation cannot compute (e.g. a second
            # reference to an already accepted Manifest): refusing is right, wherever the entry is met
            return out, 'unsupported-hash-in-entry'
        out.append(viol('verify.false-alarm', '%s: model says the tree matches, gemato %s' % (what, describe(r)),
                        sig='%s:%s' % (r[0], r[1] if r[0] != 'ok' else r[1])))
        return out, None
    if r[0] == 'ok':
        if r[1] is True or r[1] is None:
            out.append(viol('verify.false-success',
                            '%s: model says %s %s but gemato returned success' % (
                                what, k, dict(list(v.offending.items())[:4]) or v.chain or v.notes),
                            sig=k + ':' + ','.join(sorted(set(w.split(':')[0] for w in v.offending.values())))))
        else:
            out.append(viol('verify.strict-returned', '%s: strict handler but gemato %s' % (what, describe(r)), sig=k))
        return out, None
    if k == 'FAIL-ANY':
        return out, 'fail-any'
    if r[0] == 'GE' and r[1] == 'UnsupportedHash' and getattr(v, 'unsupported', False):
        return out, 'unsupported-hash-in-entry'
    if k == 'MISMATCH':
        if r[0] == 'GE' and r[1] == 'ManifestMismatch':
            p = r[2].path
            if p in v.offending or p in v.maybe or p in getattr(v, 'bad_refs', ()):
                return out, None
            out.append(viol('verify.wrong-path', '%s: ManifestMismatch names %r, model offending set %r' % (
                what, p, sorted(v.offending)), sig='wrong-path'))
            return out, None
        if r[0] == 'OS' and r[1] == 'ENOTDIR' and getattr(v, 'enotdir', False):
            return out, 'entry-beneath-file'
        if r[0] == 'GE' and r[1] == 'UnsupportedHash' and 'unsupported-hash' in v.offending.values():
            return out, 'unsupported-hash-in-entry'
        if r[0] == 'OS' and getattr(v, 'oserr', None) and r[1] in v.oserr:
            return out, 'genuine-os-error'
        out.append(viol('verify.wrong-failure', '%s: model says MISMATCH %r, gemato %s' % (
            what, dict(list(v.offending.items())[:4]), describe(r)), sig='%s:%s' % (r[0], r[1])))
        return out, None
    if k == 'CHAIN':
        if r[0] == 'GE' and r[1] == 'ManifestMismatch' and r[2].path in v.chain:
            return out, None
        if r[0] == 'GE' and r[1] == 'ManifestMismatch' and r[2].path in getattr(v, 'bad_refs', ()):
            return out, 'wrong-second-manifest-reference'
        if 'registered-manifest-unparseable' in v.zones and r[0] in ('GE', 'CODEC', 'DECODE'):
            return out, 'registered-manifest-unparseable'
        if 'manifest-beneath-file' in v.zones and r[0] == 'OS' and r[1] == 'ENOTDIR':
            return out, 'manifest-beneath-file'
        if r[0] == 'GE' and r[1] == 'UnsupportedHash' and 'unsupported-hash' in getattr(v, 'chain_why', {}).values():
            return out, 'unsupported-hash-in-entry'
        if r[0] == 'OS' and getattr(v, 'oserr', None) and r[1] in v.oserr:
            return out, 'genuine-os-error'
        out.append(viol('chain.wrong-failure', '%s: broken chain at %r, gemato %s' % (what, v.chain, describe(r)),
                        sig='%s:%s' % (r[0], r[1])))
        return out, None
    if k == 'INCOMPATIBLE':
        if r[0] == 'GE' and r[1] == 'ManifestIncompatibleEntry':
            return out, None
        out.append(viol('verify.incompatible-not-reported', '%s: conflicting duplicate entries, gemato %s' % (what, describe(r)),
                        sig='%s:%s' % (r[0], r[1])))
        return out, None
    if k == 'LOOP':
        if r[0] == 'GE' and r[1] == 'ManifestSymlinkLoop':
            return out, None
        if r[0] == 'GE' and r[1] == 'ManifestMismatch':
            # strict mode stops at the first problem it meets; a discrepancy
            # in a directory visited before the loop is a legitimate answer
            return out, 'loop-or-earlier-mismatch'
        if r[0] == 'OS' and ((getattr(v, 'oserr', None) and r[1] in v.oserr) or (r[1] == 'ENOTDIR' and getattr(v, 'enotdir', False))):
            # ... and so is the genuine OS error of an object met before the loop
            return out, 'loop-or-earlier-os-error'
        if r[0] == 'GE' and r[1] == 'UnsupportedHash' and (getattr(v, 'unsupported', False) or 'unsupported-hash' in v.offending.values()):
            return out, 'loop-or-earlier-unsupported-hash'
        out.append(viol('walk.loop-not-reported', '%s: symlink loop, gemato %s' % (what, describe(r)), sig='%s:%s' % (r[0], r[1])))
        return out, None
    raise AssertionError(k)


def check_cli_agrees(r_lib, cli, what='verify'):
    """CLI exit status must reflect the library outcome."""
    out = []
    if cli['kind'] == 'INTERNAL' or r_lib[0] == 'INTERNAL':
        return out
    if r_lib[0] == 'ok':
        want = 0 if r_lib[1] in (True, None) else 1
        if cli['kind'] != 'ok' or cli['rc'] != want:
            out.append(viol('cli.disagrees', '%s: library %s, CLI kind=%s rc=%r %s' % (
                what, describe(r_lib), cli['kind'], cli.get('rc'), cli.get('name')), sig='lib-ok'))
    elif r_lib[0] == 'GE':
        if cli['kind'] == 'ok' and cli['rc'] != 1:
            out.append(viol('cli.disagrees', '%s: library %s, CLI kind=%s rc=%r %s' % (
                what, describe(r_lib), cli['kind'], cli.get('rc'), cli.get('name')), sig='lib-GE'))
        elif cli['kind'] == 'ok' and not any(lv == 'ERROR' for lv, _ in cli['log']):
            out.append(viol('cli.no-log', '%s: exit 1 without an error message' % what, sig='no-log'))
    else:
        if cli['kind'] == 'ok' and cli['rc'] == 0:
            out.append(viol('cli.disagrees', '%s: library %s, CLI exit 0' % (what, describe(r_lib)), sig='lib-fail-cli-0'))
    return out


def write_violations(seam, snap_before, snap_after, what, allow=None):
    """I-writes: no write-side seam event and identical snapshot."""
    out = []
    evs = [e for e in seam.write_events if allow is None or not allow(e)]
    if evs:
        out.append(viol('I-writes', '%s issued write-side calls: %r' % (what, evs[:5]), sig=evs[0][1]))
    if snap_before is not None and snap_before != snap_after:
        changed = sorted(set(k for k in set(snap_before) | set(snap_after)
                             if snap_before.get(k) != snap_after.get(k)))
        if allow is not None:
            changed = [c for c in changed if not allow((0, 'snapshot', c, ''))]
        if changed:
            out.append(viol('I-writes', '%s changed the tree: %r' % (what, changed[:5]), sig='snapshot'))
    return out
