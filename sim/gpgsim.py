"""The two simulated OpenPGP peers.

1. FakePeer: an in-process stand-in for the gpg subprocess (gemato.openpgp's
   `subprocess` attribute is replaced) that emits a scripted status sequence,
   exit status, signal death, truncated output or a missing binary.
2. Real gpg 2.2 behind /verif/sim/gpgproxy, selected through gemato's own
   GNUPG seam (module attribute gemato.openpgp.GNUPG), with the peer's clock
   under control (--faked-system-time) and process-level faults.
"""
import atexit
import os
import shutil
import subprocess
import tempfile

import gemato.openpgp

from .world import scratch_base

HERE = os.path.dirname(os.path.abspath(__file__))
KEYDIR = os.path.join(HERE, 'keys')
PROXY = os.path.join(HERE, 'gpgproxy')
REAL_GPG = shutil.which('gpg') or '/usr/bin/gpg'
FPR = {
    'signer': '2C200DBEF9470C99CD01D42C37145D63B7C1D90E',
    'expiring': 'F0D7BF7EF1194EF9A64DA638C5E245B0BE269B77',
    'revoked': '47F758B26DA1E83963B390047985C0737947EA5E',
    'other': '5AE492D1617DFF1EC2C0C560EF6500B80E31180B',
}
SIGN_TIME = '20200301T000000'       # all test signatures are made at this peer time
BEFORE_EXPIRY = '20200601T000000'
AFTER_EXPIRY = '20210301T000000'


def keyfile(name):
    return os.path.join(KEYDIR, name)


def keydata(name):
    with open(keyfile(name), 'rb') as f:
        return f.read()


# ---------------------------------------------------------------- fake peer

class _FakeProc:
    def __init__(self, peer, argv, env):
        self.peer = peer
        self.argv = argv
        self.env = env
        self.returncode = None

    def communicate(self, input=None):
        self.peer.calls.append({'argv': list(self.argv), 'stdin': input,
                                'gnupghome': (self.env or {}).get('GNUPGHOME')})
        out, err, rc = self.peer.respond(self.argv, input)
        self.returncode = rc
        return out, err

    def wait(self, timeout=None):
        return self.returncode

    def poll(self):
        return self.returncode

    def kill(self):
        pass


class FakePeer:
    """Replaces gemato.openpgp.subprocess while active."""
    PIPE = subprocess.PIPE
    DEVNULL = subprocess.DEVNULL
    STDOUT = subprocess.STDOUT

    def __init__(self, script):
        self.script = script      # dict: status(list of str), rc, missing, stderr(bytes), raw_stdout
        self.calls = []
        self._saved = None

    def Popen(self, argv, stdin=None, stdout=None, stderr=None, env=None, **kw):
        if self.script.get('missing'):
            raise FileNotFoundError(2, 'No such file or directory', argv[0])
        return _FakeProc(self, argv, env)

    def respond(self, argv, data):
        s = self.script
        if 'raw_stdout' in s:
            out = s['raw_stdout']
        else:
            out = b''.join(('[GNUPG:] ' + l + '\n').encode('utf8') for l in s.get('status', []))
        if s.get('trunc') is not None:
            out = out[:s['trunc']]
        return out, s.get('stderr', b'gpg: scripted peer\n'), s.get('rc', 0)

    def __enter__(self):
        self._saved = gemato.openpgp.subprocess
        gemato.openpgp.subprocess = self
        return self

    def __exit__(self, *a):
        gemato.openpgp.subprocess = self._saved


# ---------------------------------------------------------------- real gpg

_signer_home = None
_sig_cache = {}


def _cleanup_home(h):
    try:
        subprocess.run(['gpgconf', '--kill', 'all'], env=dict(os.environ, GNUPGHOME=h),
                       capture_output=True, timeout=20)
    except Exception:
        pass
    shutil.rmtree(h, ignore_errors=True)


def cleanup_all():
    """Kill the agent of, and remove, every signer home this process created."""
    global _signer_home
    for h, pid in list(_created):
        if pid != os.getpid():
            continue          # inherited through fork: belongs to the parent
        _cleanup_home(h)
        _created.remove((h, pid))
        if _signer_home == h:
            _signer_home = None


_created = []


def signer_home():
    """GNUPGHOME holding the secret test keys.  The batch parent creates one and hands it to its
    workers through VERIF_SIGNER_HOME (gpg-agent serves concurrent clients); a process that finds
    none creates its own and removes it in cleanup_all()."""
    global _signer_home
    shared = os.environ.get('VERIF_SIGNER_HOME')
    if shared and os.path.isdir(shared):
        return shared
    if _signer_home is None or not os.path.isdir(_signer_home) or getattr(signer_home, 'pid', None) != os.getpid():
        h = tempfile.mkdtemp(prefix='vgpg.', dir=scratch_base())
        os.chmod(h, 0o700)
        for n in ('signer', 'expiring', 'revoked', 'other'):
            subprocess.run([REAL_GPG, '--batch', '--import', keyfile(n + '.sec.asc')],
                           env=dict(os.environ, GNUPGHOME=h), capture_output=True, check=True, timeout=60)
        subprocess.run([REAL_GPG, '--batch', '--import-ownertrust'],
                       input=''.join('%s:6:\n' % f for f in FPR.values()).encode(),
                       env=dict(os.environ, GNUPGHOME=h), capture_output=True, check=True, timeout=60)
        _signer_home = h
        signer_home.pid = os.getpid()
        _created.append((h, os.getpid()))
        atexit.register(cleanup_all)
    return _signer_home


def clearsign(text, key='signer', faketime=SIGN_TIME, extra=()):
    """Signed text (str) made by the real gpg with the given test key."""
    ck = (text, key, faketime, tuple(extra))
    if ck in _sig_cache:
        return _sig_cache[ck]
    argv = [REAL_GPG, '--batch', '--faked-system-time', faketime, '--local-user', FPR[key]] + list(extra) + ['--clearsign']
    p = subprocess.run(argv, input=text.encode('utf8'), env=dict(os.environ, GNUPGHOME=signer_home(), TZ='UTC'),
                       capture_output=True, timeout=60)
    if p.returncode != 0:
        raise RuntimeError('gpg --clearsign failed: ' + p.stderr.decode('utf8', 'replace'))
    out = p.stdout.decode('utf8')
    _sig_cache[ck] = out
    return out


def gpg_cleartext(signed, faketime=BEFORE_EXPIRY):
    """What the OpenPGP implementation itself considers the signed text:
    `gpg --decrypt` output (trust-model always home with all test keys).
    Returns (text or None, good?)."""
    ft = ['--faked-system-time', faketime] if faketime else []
    p = subprocess.run([REAL_GPG, '--batch'] + ft + ['--status-fd', '2', '--decrypt'],
                       input=signed.encode('utf8', 'surrogateescape'), env=dict(os.environ, GNUPGHOME=signer_home(), TZ='UTC'),
                       capture_output=True, timeout=60)
    good = b'[GNUPG:] GOODSIG' in p.stderr and b'[GNUPG:] VALIDSIG' in p.stderr and p.returncode == 0
    gpg_cleartext.last_fpr = None
    gpg_cleartext.n_sigs = 0
    for l in p.stderr.split(b'\n'):
        if l.startswith(b'[GNUPG:] VALIDSIG '):
            sp = l.split(b' ')
            gpg_cleartext.last_fpr = sp[-1].decode('ascii', 'replace')
        if l.startswith((b'[GNUPG:] VALIDSIG ', b'[GNUPG:] ERRSIG ', b'[GNUPG:] BADSIG ')):
            gpg_cleartext.n_sigs += 1
    try:
        return p.stdout.decode('utf8'), good
    except UnicodeDecodeError:
        return None, False


class RealPeer:
    """Route gemato's gpg calls through the fault proxy."""

    def __init__(self, faketime=None, fault=None, missing=False):
        self.faketime = faketime
        self.fault = fault
        self.missing = missing

    def __enter__(self):
        self._saved = (gemato.openpgp.GNUPG, os.environ.get('VERIF_GPG_FAKETIME'), os.environ.get('VERIF_GPG_FAULT'))
        gemato.openpgp.GNUPG = '/nonexistent/gpg-is-missing' if self.missing else PROXY
        for k, v in (('VERIF_GPG_FAKETIME', self.faketime), ('VERIF_GPG_FAULT', self.fault)):
            if v is None:
                os.environ.pop(k, None)
            else:
                os.environ[k] = v
        self._once = None
        self._saved_once = os.environ.get('VERIF_GPG_ONCE')
        if self.fault and self.fault.startswith('signonce-'):
            import tempfile
            fd, self._once = tempfile.mkstemp(prefix='vsim.once.', dir='/dev/shm' if os.path.isdir('/dev/shm') else None)
            os.close(fd)
            os.unlink(self._once)
            os.environ['VERIF_GPG_ONCE'] = self._once
        return self

    def __exit__(self, *a):
        gemato.openpgp.GNUPG = self._saved[0]
        if self._once is not None:
            try:
                os.unlink(self._once)
            except OSError:
                pass
        if self._saved_once is None:
            os.environ.pop('VERIF_GPG_ONCE', None)
        else:
            os.environ['VERIF_GPG_ONCE'] = self._saved_once
        for k, v in (('VERIF_GPG_FAKETIME', self._saved[1]), ('VERIF_GPG_FAULT', self._saved[2])):
            if v is None:
                os.environ.pop(k, None)
            else:
                os.environ[k] = v


def set_ownertrust(env, fpr, level):
    env._spawn_gpg([gemato.openpgp.GNUPG, '--batch', '--import-ownertrust'],
                   ('%s:%d:\n' % (fpr, level)).encode('ascii'))


def snapshot_dir(d):
    """Content of a GNUPGHOME that matters: keyrings, trust database, secret keys,
    configuration.  Agent sockets, lock files and random_seed come and go with the
    (asynchronously terminating) gpg-agent and are not part of the keyring."""
    out = {}
    for base, dn, fn in os.walk(d):
        for n in fn:
            if n.startswith('S.') or n.startswith('.#lk') or n == 'random_seed' or n.endswith('.lock'):
                continue
            p = os.path.join(base, n)
            if os.path.islink(p) or not os.path.isfile(p):
                out[os.path.relpath(p, d)] = 'special'
                continue
            with open(p, 'rb') as f:
                out[os.path.relpath(p, d)] = f.read()
    return out
