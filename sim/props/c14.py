"""C14 A signed tree stays signed; sub-Manifests are never signed.

World: generated tree with nested and compressed sub-Manifests; the top-level
Manifest originally plain or genuinely signed (real gpg).  The signer is the
real gpg reached through gemato's GNUPG seam behind the fault proxy: healthy,
exit status != 0, killed by a signal, no output, no usable secret key
(unknown key id, expired key), binary missing.  Sign option unset / on / off,
explicit key id or default key, library and CLI.  Oracle: gpg itself
re-verifies the saved top-level Manifest; the cleartext it prints equals the
plain Manifest a twin world writes with signing off; sub-Manifests carry no
armor; a signer fault makes the save fail.
"""
import copy
import os

import gemato.openpgp
from gemato.openpgp import SystemGPGEnvironment
from gemato.recursiveloader import ManifestRecursiveLoader

from .. import gen_tree as GT
from .. import gen_update as GU
from .. import gpgsim as GS
from .. import grammar as G
from ..common import call, run_cli, mk_result, viol, cli_as_call
from ..oracles import describe
from ..seam import Seam, Clock, make_datetime_shim, orig as _o
import gemato.cli
from ..world import World

ID = 'C14'
LEVEL = 'exploration'
NEEDS_GPG = True
NO_SHRINK = ('hashes',)
RULE = ('each run = generated tree + Manifest layout (nested, compressed sub-Manifests, paths needing escapes), '
        'top-level originally signed or plain, 0-3 file edits, then an update+save (30%: followed by more edits and a second update+save on the same loader object) with sign option unset/on/off, '
        'explicit key id (signer / other / expired key / unknown id) or default key, through library or CLI, with a '
        'signer fault drawn from {none, exit 1, exit 2, exit 2 after header and text were written, SIGKILL, SIGTERM, no output, binary missing}; a twin world '
        'runs the same update with signing off; non-trivial = signing was expected or a signer fault was injected; '
        'distinct = distinct outcome digest')
PLAN = {'quick': {'n': 2000, 'budget_s': 90, 'block': 6, 'det': 2},
        'thorough': {'n': 80000, 'budget_s': 2400, 'block': 40, 'det': 3}}
ASSUMPTIONS = ['gpg --decrypt strips trailing blanks per line and ends the text with a newline; both sides are normalised that way',
               'signature bytes, times and fingerprints never enter the event log']
COMPONENTS_REAL = ['gpg 2.2.40 as signer (through gemato.openpgp.GNUPG -> sim/gpgproxy) and as independent re-verifier']
COMPONENTS_STUB = ['signer process faults injected by sim/gpgproxy']


def generate(rng, tier, idx):
    top = 'Manifest' if rng.random() < 0.8 else rng.choice(['Manifest.gz', 'Manifest.xz', 'Manifest.bz2'])
    g = GT.gen_tree(rng, {'top': top, 'p_conflict': 0.0, 'p_dup': 0.0, 'p_multi': 0.1, 'symlinks': False,
                          'hostile': rng.random() < 0.5})
    info = g['info']
    edits = GU.gen_edits(rng, info, rng.choice([0, 1, 1, 2, 3]))
    opt = rng.choice(['unset', 'unset', 'on', 'on', 'off'])
    keyid = rng.choice([None, None, 'signer', 'other', 'expiring', 'unknown', 'other-uid'])      # ('other-uid': the key named by its user id, which contains a blank)
    # a second update+save on the SAME loader object (long-running caller); data-file edits only
    round2 = None
    if rng.random() < 0.3:
        round2 = {'edits': [e for e in GU.gen_edits(rng, info, rng.choice([0, 1, 2])) if not (e['m'] == 'delete' and e['p'] in info['dirs'])],
                  'force': rng.random() < 0.6}
    sc = {'prop': ID, 'order_key': '%016x' % rng.getrandbits(64), 'tree': g['tree'], 'manifests': g['manifests'],
            'normalise_first': (top == 'Manifest' and rng.random() < 0.15), 'round2': round2, 'cli_cmd': rng.choice(['update', 'update', 'create']),     # `create` over an existing tree, too
            'edits': edits, 'orig_signed': rng.random() < 0.6, 'opt': opt, 'keyid': keyid,
            'top': top, 'watermark': rng.choice([None, None, 0, 100000]) if top == 'Manifest' else rng.choice([None, 0, 100000, 100000]),
            'api': rng.choice(['lib', 'lib', 'cli']) if top == 'Manifest' else 'lib', 'force': rng.random() < 0.5,
            'hashes': rng.choice([['SHA256'], ['MD5', 'SHA1'], ['BLAKE2B', 'SHA512']]),
            'fault': rng.choice([None] * 6 + ['exit1', 'exit2', 'kill', 'term', 'nooutput', 'missing', 'partial2', 'partial2', 'signonce-exit2', 'signonce-exit1'])}
    if sc['normalise_first']:
        sc['force'] = True
        sc['round2'] = None
    if rng.random() < 0.3:
        sc['orig_key'] = 'other'      # the tree was signed by somebody else's key; re-signing without a key id uses OUR default key
    if sc['api'] == 'cli' and rng.random() < 0.5:
        # a second tree on the same command line, before or after this one, signed or plain: each tree's top-level Manifest
        # follows its OWN earlier state when neither --sign nor --no-sign is given
        sc['other_tree'] = {'signed': rng.random() < 0.5, 'pos': rng.choice(['first', 'last'])}
    if rng.random() < 0.25:
        # one sub-Manifest carries a valid cleartext signature on disk (signed by hand, or once a top-level Manifest)
        sc['sub_signed'] = rng.randrange(100)
    return sc


_DEFAULT = {}


def default_fpr():
    """Primary-key fingerprint of the key GnuPG itself picks in the signer's home when none is named."""
    if 'fpr' not in _DEFAULT:
        import subprocess
        p_ = subprocess.run([GS.REAL_GPG, '--batch', '--faked-system-time', GS.SIGN_TIME, '--clearsign'], input=b'probe\n',
                            env=dict(os.environ, GNUPGHOME=GS.signer_home(), TZ='UTC'), capture_output=True, timeout=60)
        fpr_ = None
        if p_.returncode == 0:
            clear_, good_ = GS.gpg_cleartext(p_.stdout.decode('utf8'), faketime=None)
            if good_:
                fpr_ = getattr(GS.gpg_cleartext, 'last_fpr', None)
        _DEFAULT['fpr'] = fpr_
    return _DEFAULT['fpr']


def norm(text):
    return [l.rstrip() for l in text.split('\n') if l.strip()]


def run_world(sc, sign, keyid, fault, orig_signed):
    """Build, edit, update+save.  Returns (result, top text or None, sub-manifest armor?, write happened)."""
    with World(sc) as w:
        w.build()
        topname = sc.get('top', 'Manifest')
        top = os.path.join(w.root, topname)
        if orig_signed:
            with _o['open'](top, 'rb') as f:
                plain = G.decompress(f.read(), G.comp_of(topname)).decode('utf8')
            with _o['open'](top, 'wb') as f:
                f.write(G.compress(GS.clearsign(plain, key=sc.get('orig_key', 'signer')).encode('utf8'), G.comp_of(topname)))
        pre_signed = None
        if sc.get('sub_signed') is not None:
            subs_ = sorted(m_['p'] for m_ in sc.get('manifests', []) if m_['p'] != topname and os.path.isfile(os.path.join(w.root, m_['p'])))
            if subs_:
                pre_signed = subs_[sc['sub_signed'] % len(subs_)]
                try:
                    with _o['open'](os.path.join(w.root, pre_signed), 'rb') as f:
                        plain_ = G.decompress(f.read(), G.comp_of(pre_signed)).decode('utf8')
                    with _o['open'](os.path.join(w.root, pre_signed), 'wb') as f:
                        f.write(G.compress(GS.clearsign(plain_, key='signer').encode('utf8'), G.comp_of(pre_signed)))
                except (OSError, UnicodeDecodeError, EOFError):
                    pre_signed = None
        for e in sc.get('edits', []):
            w.mutate(e)
        clock = Clock(epoch_ns=w.epoch_ns + 100_000_000_000, key=sc['order_key'], mode='micro')
        seam = Seam(w.root, order_key=sc['order_key'], virtual_root=True, clock=clock)
        old_dt = gemato.cli.datetime
        gemato.cli.datetime = make_datetime_shim(clock)     # TIMESTAMP refresh must not read the real clock
        old_home = os.environ.get('GNUPGHOME')
        os.environ['GNUPGHOME'] = GS.signer_home()
        kid = None
        if keyid == 'unknown':
            kid = '0xDEADBEEFDEADBEEF'
        elif keyid == 'other-uid':
            kid = 'verif other'
        elif keyid:
            kid = '0x' + GS.FPR[keyid]
        other_text = None
        try:
            if sc.get('normalise_first'):
                # an earlier, unsigned run has already brought every Manifest up to date with the same options: the run
                # under test has nothing to change, only to (re)write what it is asked to
                with GS.RealPeer():
                    def pre():
                        m0 = ManifestRecursiveLoader(top, openpgp_env=SystemGPGEnvironment(), sign_openpgp=False,
                                                     hashes=sc['hashes'], compress_watermark=sc.get('watermark'))
                        m0.update_entries_for_directory('')
                        m0.save_manifests(force=True)
                    call(pre)
                tops0 = [n for n in G.MANIFEST_NAMES if os.path.exists(os.path.join(w.root, n))]
                if len(tops0) == 1:
                    top = os.path.join(w.root, tops0[0])
            with GS.RealPeer(fault=fault, missing=(fault == 'missing')):
                with seam:
                    seam.begin_op(0)
                    if sc.get('api') == 'cli':
                        argv = [sc.get('cli_cmd', 'update'), '-H', ' '.join(sc['hashes'])]
                        if sign is True:
                            argv.append('-s')
                        elif sign is False:
                            argv.append('-S')
                        if kid:
                            argv += ['-k', kid]
                        if sc.get('force'):
                            argv.append('-f')
                        if sc.get('watermark') is not None:
                            argv += ['-c', str(sc['watermark'])]
                        argv.append(w.root)
                        ot = sc.get('other_tree')
                        if fault or keyid in ('unknown', 'expiring'):
                            ot = None      # (signer faults and unusable keys are judged on the single-tree request)
                        if ot:
                            t0 = w.other_tree()
                            if ot['signed']:
                                with _o['open'](os.path.join(t0, 'Manifest'), 'r', encoding='utf8') as f:
                                    pl_ = f.read()
                                with _o['open'](os.path.join(t0, 'Manifest'), 'w', encoding='utf8') as f:
                                    f.write(GS.clearsign(pl_, key='signer'))
                            with _o['open'](os.path.join(t0, 'Manifest'), 'r', encoding='utf8') as f:
                                other_before = f.read()
                            argv = argv[:-1] + ([t0, w.root] if ot['pos'] == 'first' else [w.root, t0])
                        r = cli_as_call(run_cli(argv))
                        if ot:
                            try:
                                with _o['open'](os.path.join(t0, 'Manifest'), 'r', encoding='utf8') as f:
                                    other_text = f.read()
                            except OSError:
                                other_text = None
                            if other_text == other_before:
                                other_text = None      # not rewritten: whatever it carried stays
                    else:
                        def upd():
                            env = SystemGPGEnvironment()
                            m = ManifestRecursiveLoader(top, openpgp_env=env, sign_openpgp=sign, openpgp_keyid=kid,
                                                        hashes=sc['hashes'], compress_watermark=sc.get('watermark'))
                            m.update_entries_for_directory('')
                            m.save_manifests(force=bool(sc.get('force')))
                            if sc.get('round2'):
                                for e in sc['round2']['edits']:
                                    w.mutate(e)
                                m.update_entries_for_directory('')
                                m.save_manifests(force=bool(sc['round2'].get('force')))
                            return True
                        r = call(upd)
        finally:
            gemato.cli.datetime = old_dt
            if old_home is None:
                os.environ.pop('GNUPGHOME', None)
            else:
                os.environ['GNUPGHOME'] = old_home
        tops = [n for n in G.MANIFEST_NAMES if os.path.exists(os.path.join(w.root, n))]
        wrote_top = any(e[1] == 'open.w' and e[2] in G.MANIFEST_NAMES for e in seam.write_events)
        text = None
        if len(tops) == 1:
            top = os.path.join(w.root, tops[0])
            try:
                with _o['open'](top, 'rb') as f:
                    text = G.decompress(f.read(), G.comp_of(tops[0])).decode('utf8')
            except Exception:
                text = None
        armor = []
        for d, dn, fn in os.walk(w.root):
            for n in fn:
                if (n == 'Manifest' or n.startswith('Manifest.') or n.startswith('Manifest-')) and os.path.join(d, n) != top:
                    try:
                        with _o['open'](os.path.join(d, n), 'rb') as f:
                            t = G.decompress(f.read(), G.comp_of(n)).decode('utf8', 'replace')
                    except Exception:
                        continue
                    if '-----BEGIN PGP' in t:
                        rel_ = os.path.relpath(os.path.join(d, n), w.root)
                        if rel_ == pre_signed and not any(e[1] == 'open.w' and rel_ in e[2].split(' -> ') for e in seam.write_events):
                            continue       # it arrived signed and this update did not write it
                        armor.append(rel_)
    seam.pre_signed_sub = pre_signed
    seam.other_text = other_text
    return r, text, armor, wrote_top, seam


def execute(sc):
    violations = []
    counters = {}
    zones = {}
    sign = {'unset': None, 'on': True, 'off': False}[sc['opt']]
    fault = sc.get('fault')
    keyid = sc.get('keyid')
    orig = sc.get('orig_signed') and not sc.get('normalise_first')
    r, text, armor, wrote_top, seam = run_world(sc, sign, keyid, fault, orig)
    expect_sign = (sign is True) or (sign is None and orig)
    signer_ok = fault is None and keyid not in ('unknown', 'expiring')
    what = 'update(sign=%s, keyid=%s, originally_signed=%s, api=%s, signer fault=%s)' % (sc['opt'], keyid, orig, sc.get('api'), fault)
    outcome = [sc['opt'], keyid, orig, sc.get('api'), fault, r[0], r[1] if r[0] != 'ok' else 'ok', wrote_top]
    # loading an originally signed top-level needs the verifier too: with a peer fault the load itself fails
    if r[0] == 'INTERNAL':
        violations.append(viol('I-internal', 'internal error escaped: %s: %s [%s]' % (r[1], r[2], what), sig=r[1]))
    elif armor:
        violations.append(viol('sign.sub-manifest-signed', '%s: sub-Manifests carry OpenPGP armor: %r' % (what, armor), sig='armor'))
    elif r[0] != 'ok':
        if r[0] == 'OS' and (not fault or '/tree/' in str(getattr(r[2], 'filename', ''))):
            zones['update-failed-genuine-oserror:' + str(r[1])] = 1     # e.g. a registered sub-Manifest's directory was deleted
        elif r[0] != 'GE':
            violations.append(viol('sign.wrong-failure', '%s: %s' % (what, describe(r)), sig='%s:%s' % (r[0], r[1])))
        elif not (expect_sign and not signer_ok) and not ((orig or getattr(seam, 'pre_signed_sub', None)) and fault) and not wrote_top:
            # a failure with a healthy signer (or no signing at all) on a well-formed tree
            zones['update-failed:' + str(r[1])] = 1
            if r[1] in ('OpenPGPSigningFailure', 'OpenPGPNoImplementation'):
                violations.append(viol('sign.spurious-signing-failure', '%s: %s' % (what, describe(r)), sig=r[1]))
        elif expect_sign and not signer_ok and wrote_top and r[1] not in ('OpenPGPSigningFailure', 'OpenPGPNoImplementation', 'cli-exit-1'):
            violations.append(viol('sign.wrong-failure', '%s: signer unusable, expected a signing failure, got %s' % (what, r[1]), sig=str(r[1])))
        counters['failed.' + str(r[1])] = 1
    else:
        # the save succeeded
        if text is None:
            violations.append(viol('sign.top-level-unreadable', '%s: top-level Manifest unreadable after a successful save' % what))
        elif not wrote_top and not (sc.get('force') and sc.get('api') != 'cli' and not sc.get('round2')):
            counters['top-level-not-rewritten'] = 1
        else:
            signed_now = text.startswith('-----BEGIN PGP SIGNED MESSAGE-----')
            if expect_sign and fault == 'nooutput':
                # the signer exited 0 without output: it did not REPORT a failure (outside the statement)
                zones['signer-exit-0-without-output'] = 1
            elif expect_sign and not signer_ok:
                violations.append(viol('sign.failure-swallowed', '%s: the signer cannot sign, yet the save succeeded and left a %s top-level Manifest' % (
                    what, 'signed-looking' if signed_now else 'plain'), sig='swallowed:' + str(fault or keyid)))
            elif expect_sign:
                if not signed_now:
                    violations.append(viol('sign.not-signed', '%s: top-level Manifest written without a signature' % what, sig='plain'))
                else:
                    clear, good = GS.gpg_cleartext(text, faketime=None)
                    fpr = getattr(GS.gpg_cleartext, 'last_fpr', None)
                    if not good:
                        violations.append(viol('sign.signature-does-not-verify', '%s: gpg rejects the saved top-level Manifest' % what, sig='gpg'))
                    else:
                        want_key = GS.FPR[keyid] if keyid in ('signer', 'other') else None
                        if keyid == 'other-uid':
                            want_key = GS.FPR['other']
                        if getattr(GS.gpg_cleartext, 'n_sigs', 1) != 1:
                            violations.append(viol('sign.extra-signature', '%s: the saved top-level Manifest carries %d signatures' % (what, GS.gpg_cleartext.n_sigs), sig='n'))
                        if keyid is None:
                            want_key = default_fpr()      # no key id given: GnuPG's default key, whoever signed before
                        if want_key and fpr != want_key:
                            violations.append(viol('sign.wrong-key', '%s: signed by %s' % (what, 'another key'), sig='key'))
                        # twin world: same update, signing off
                        sc2 = copy.deepcopy(sc)
                        r2, text2, armor2, wrote2, seam2 = run_world(sc2, False, None, None, orig)
                        if r2[0] != 'ok' or text2 is None:
                            zones['twin-failed'] = 1
                        elif norm(clear) != norm(text2):
                            violations.append(viol('sign.cleartext-differs', '%s: signed cleartext %r differs from the plain twin %r' % (
                                what, norm(clear)[:4], norm(text2)[:4]), sig='cleartext'))
                        try:
                            G.parse(clear)
                        except Exception as e:
                            violations.append(viol('sign.cleartext-unparseable', '%s: %r' % (what, e), sig='parse'))
                        counters['signed_and_reverified'] = 1
            else:
                if signed_now or '-----BEGIN PGP' in text:
                    violations.append(viol('sign.signed-although-disabled', '%s: top-level Manifest carries a signature' % what, sig='signed'))
                counters['plain_as_expected'] = 1
    ot = sc.get('other_tree')
    if ot and sc.get('api') == 'cli' and r[0] == 'ok' and not fault and getattr(seam, 'other_text', None) is not None and not violations:
        counters['cli_two_trees.' + ('signed' if ot['signed'] else 'plain') + '-' + ot['pos']] = 1
        want_other = sign if sign is not None else ot['signed']
        has_ = seam.other_text.startswith('-----BEGIN PGP SIGNED MESSAGE-----')
        if want_other and not has_ and (keyid in (None, 'signer', 'other', 'other-uid')):
            violations.append(viol('sign.not-signed', '%s: the %s tree on the same command line (%s) was written without a signature' % (
                what, 'signed' if ot['signed'] else 'plain', ot['pos']), sig='other-tree-plain'))
        elif not want_other and '-----BEGIN PGP' in seam.other_text:
            violations.append(viol('sign.signed-although-disabled', '%s: the plain tree on the same command line (%s) got a signature' % (what, ot['pos']), sig='other-tree-signed'))
        elif want_other and has_:
            clear_, good_ = GS.gpg_cleartext(seam.other_text, faketime=None)
            if not good_:
                violations.append(viol('sign.signature-does-not-verify', '%s: gpg rejects the top-level Manifest of the other tree on the command line' % what, sig='other-tree-gpg'))
    nontrivial = expect_sign or bool(fault)
    counters['opt.' + sc['opt']] = 1
    if sc.get('round2') and sc.get('api') != 'cli':
        counters['second_save_round_on_the_same_loader'] = 1
    res = mk_result([seam], violations, nontrivial, outcome=outcome, dontcare=zones, counters=counters, ops=1)
    if fault:
        res['faults_fired']['signer.' + fault] = 1
    if keyid in ('unknown', 'expiring'):
        res['faults_fired']['signer.no-usable-secret-key'] = 1
    return res
