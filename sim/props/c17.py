"""C17 Reported digests and sizes are those of the whole file content.

Simulated: the reader under hash_file / the descriptor opened by
get_file_metadata sits on SimRawIO, whose readinto() returns arbitrary short
chunks per a keyed schedule; st_size may read 0 ("weird filesystem") or the
size hint may be wrong.  Oracle: one-shot hashlib over the whole content.
"""
import hashlib
import io
import os

import gemato.hash
import gemato.verify
import gemato.manifest
from gemato.exceptions import UnsupportedHash

from .. import grammar as G
from ..common import call, mk_result, run_cli, viol
from ..seam import Seam, _h, orig as _o
from ..world import World, content_bytes

ID = 'C17'
LEVEL = 'exploration'
RULE = ('each run = one generated content length/hash set/size hint/read-chunk schedule/API '
        '(hash_file on a short-reading reader, hash_path, get_file_metadata, verify_path, '
        'update_entry_for_path, CLI hash); non-trivial = at least one short read actually '
        'happened or the length is at a buffering threshold or the hint is wrong; distinct '
        '= distinct seam event-log digest')
PLAN = {'quick': {'n': 6000, 'budget_s': 90, 'block': 60},
        'thorough': {'n': 300000, 'budget_s': 2400, 'block': 200}}
ASSUMPTIONS = ['hashlib one-shot digests are the reference',
               'WHIRLPOOL is not available in this interpreter: only its rejection is checked']

FIXED_HASHLIB = sorted(a for a in hashlib.algorithms_available
                       if not a.startswith('shake'))
THRESH = [65534, 65535, 65536, 65537, 65538, 1048574, 1048575, 1048576,
          1048577, 1048578, 131072, 2 * 1048576 + 3]
APIS = ['hash_file', 'hash_file_read1', 'hash_path', 'metadata', 'verify',
        'update', 'cli', 'cli-stdin', 'unsupported']


def generate(rng, tier, idx):
    r = rng.random()
    if r < 0.55:
        n = idx % 301 if idx < 900 else rng.randrange(0, 301)
    elif r < 0.85:
        n = rng.choice(THRESH)
    else:
        n = rng.randrange(300, 300000)
    api = rng.choice(APIS[:-1]) if rng.random() < 0.93 else 'unsupported'
    nh = rng.randrange(1, 4)
    sc = {
        'prop': ID, 'order_key': '%016x' % rng.getrandbits(64),
        'len': n, 'content': {'prng': [rng.getrandbits(32), n]},
        'api': api,
        'hashes': sorted(rng.sample(G.SUPPORTED_HASHES, min(nh, len(G.SUPPORTED_HASHES)))),
        'hashlib': sorted(rng.sample(FIXED_HASHLIB, rng.randrange(1, 4))),
        'hint': rng.choice(['true', 'true', 'zero', 'smaller', 'larger', 'one']),
        'chunks': rng.choice([None, 'tiny', 'mixed', 'mixed', 1, 3, 4096, 65535, 65536, 65537]),
        'zero_size': rng.random() < 0.2,
        'bad_name': rng.choice(['WHIRLPOOL', 'FOO', 'sha256', 'SHA-512', 'MD4X', 'BLAKE3']),
    }
    if rng.random() < 0.12:
        # many algorithms in one call (every combination of block sizes and digest lengths, up to all of them)
        sc['hashlib'] = sorted(rng.sample(FIXED_HASHLIB, rng.randrange(4, len(FIXED_HASHLIB) + 1)))
        if rng.random() < 0.3:
            sc['hashlib'] = sorted(a for a in FIXED_HASHLIB if a.startswith(rng.choice(['sha3_', 'sha', 'blake', 's'])))
        sc['hashes'] = sorted(rng.sample(G.SUPPORTED_HASHES, rng.randrange(4, len(G.SUPPORTED_HASHES) + 1)))
    if rng.random() < 0.25:
        # the requested list in arbitrary order and with a name given twice (`-H "SHA256 SHA256 SHA512"`)
        hs = list(sc['hashes'])
        for _ in range(rng.choice([1, 1, 2])):
            hs.insert(rng.randrange(len(hs) + 1), rng.choice(hs))
        if rng.random() < 0.5:
            rng.shuffle(hs)
        sc['hashes'] = hs
    if rng.random() < 0.25:
        # the file changed size between fstat() and the read: the reported size hint is off, the content is what is read
        sc['fstat_skew'] = rng.choice([-1, 1, -(n // 2), 100, n, 65536, -65536])
    sc['rehash'] = rng.random() < 0.3
    if rng.random() < 0.2:
        # the file is called like a compressed file (a distfile): its BYTES are hashed, whatever the name suggests
        sc['fname'] = rng.choice(['f.gz', 'data.tar.bz2', 'x.xz', 'y.lzma', 'Manifest.gz'])
    if api in ('hash_path', 'hash_file', 'metadata', 'verify', 'update') and rng.random() < 0.1:
        # storage fault: the k-th raw read of the file fails with EIO (k >= 2: after data has been delivered); the
        # error has to surface, never the digests of the prefix
        sc['read_fault'] = rng.choice([2, 2, 3, 4, 6])
        sc['rehash'] = False
    if api == 'hash_file' and rng.random() < 0.3:
        # the reader handed to hash_file() is a DECOMPRESSING stream over a file on disk (what gemato's own
        # open_potentially_compressed_path returns): the digests are those of what the stream delivers, not of the bytes
        # behind its descriptor; some of these files are larger than 1 MiB on disk
        sc['stream'] = rng.choice(['gz', 'gz', 'bz2', 'xz', 'lzma'])
        sc['fname'] = 'f.' + sc['stream']
        sc.pop('read_fault', None)
        sc.pop('fstat_skew', None)
        sc['zero_size'] = False
        if rng.random() < 0.3:
            n = rng.choice([1048576 + 4096, 1100000, 1300000])
            sc['len'] = n
            sc['content'] = {'prng': [rng.getrandbits(32), n]}
            sc['hint'] = rng.choice(['true', 'zero', 'zero', 'larger'])
            sc['stream'] = rng.choice(['gz', 'gz', 'bz2'])
            sc['fname'] = 'f.' + sc['stream']
            sc['hashlib'] = sc['hashlib'][:2]
    if n > 70000 and sc['chunks'] in ('tiny', 1, 3):
        sc['chunks'] = 'mixed'
    return sc


class ShortRaw(io.RawIOBase):
    """raw stream (a pipe on stdin) that hands out short chunks"""

    def __init__(self, data, key):
        super().__init__()
        self.data = data
        self.pos = 0
        self.key = key
        self.n = 0
        self.short = 0

    def readable(self):
        return True

    def readinto(self, b):
        self.n += 1
        v = int.from_bytes(_h(self.key, 'raw', self.n)[:4], 'big')
        lim = max(1, min(len(b), (1, 3, 100, 4096, 65535, 65536, len(b))[v % 7]))
        if lim < len(b) and self.pos + lim < len(self.data):
            self.short += 1
        chunk = self.data[self.pos:self.pos + lim]
        b[:len(chunk)] = chunk
        self.pos += len(chunk)
        return len(chunk)


class Read1Reader:
    """A reader whose read1() legally returns fewer bytes than asked for and
    whose read() returns the rest of the content."""

    def __init__(self, data, key):
        self.data = data
        self.pos = 0
        self.key = key
        self.n = 0
        self.short = 0

    def read(self, n=-1):
        if n is None or n < 0:
            d = self.data[self.pos:]
            self.pos = len(self.data)
            return d
        d = self.data[self.pos:self.pos + n]
        self.pos += len(d)
        return d

    def read1(self, n=-1):
        self.n += 1
        if n is None or n < 0:
            n = 8192
        v = int.from_bytes(_h(self.key, 'r1', self.n)[:4], 'big')
        lim = max(1, min(n, (1, 2, 5, 100, 4096, 65535, n)[v % 7]))
        if lim < n:
            self.short += 1
        d = self.data[self.pos:self.pos + lim]
        self.pos += len(d)
        return d


def expected(content, names):
    return dict((h, hashlib.new(G.HASHLIB_NAME[h], content).hexdigest()) for h in names)


def execute(sc):
    content = content_bytes(sc['content'])
    n = len(content)
    api = sc['api']
    violations = []
    outcome = {}
    hint = {'true': n, 'zero': 0, 'smaller': max(n - 1, 0) // 2, 'larger': n + 7,
            'one': 1}[sc['hint']]
    with World(sc) as w:
        fname = sc.get('fname', 'f')
        if sc.get('stream'):
            import base64, bz2, gzip, lzma
            comp_ = {'gz': lambda b: gzip.compress(b, 1, mtime=0), 'bz2': lambda b: bz2.compress(b, 1),
                     'xz': lambda b: lzma.compress(b, format=lzma.FORMAT_XZ, preset=0),
                     'lzma': lambda b: lzma.compress(b, format=lzma.FORMAT_ALONE, preset=0)}[sc['stream']]
            w.put({'p': fname, 'k': 'file', 'b64': base64.b64encode(comp_(content)).decode()})
        else:
            w.put({'p': fname, 'k': 'file', **sc['content']})
        path = w.path(fname)
        skew = sc.get('fstat_skew')
        seam = Seam(w.root, order_key=sc['order_key'], read_chunks=sc['chunks'],
                    faults=([{'kinds': ['read'], 'path': fname, 'nth': sc['read_fault'], 'errno': 'EIO'}] if sc.get('read_fault') else None),
                    zero_size=[fname] if sc.get('zero_size') else None,
                    size_override=({fname: max(1, n + skew)} if (skew and api == 'metadata' and not sc.get('zero_size')) else None))
        extra_short = 0
        with seam:
            if api in ('hash_file', 'hash_file_read1'):
                names = list(sc['hashlib']) + ['__size__']
                if api == 'hash_file' and sc.get('stream'):
                    from gemato.compression import open_potentially_compressed_path
                    fstack = open_potentially_compressed_path(path, 'rb')
                    f = fstack.__enter__()
                elif api == 'hash_file':
                    f = open(path, 'rb')
                else:
                    f = Read1Reader(content, sc['order_key'])
                try:
                    r = call(gemato.hash.hash_file, f, names, _apparent_size=hint)
                finally:
                    if api == 'hash_file' and sc.get('stream'):
                        fstack.__exit__(None, None, None)
                    elif api == 'hash_file':
                        f.close()
                    else:
                        extra_short = f.short
                if r[0] != 'ok':
                    violations.append(viol('hash.exception', '%s %s' % (r[1], r[2]), sig=r[1]))
                else:
                    got = r[1]
                    for a in sc['hashlib']:
                        if got.get(a) != hashlib.new(a, content).hexdigest():
                            violations.append(viol('hash.digest', 'hash_file %s wrong for len %d hint %d' % (a, n, hint), sig=a))
                    if got.get('__size__') != n:
                        violations.append(viol('hash.size', 'hash_file size %r != %d' % (got.get('__size__'), n)))
                    outcome = {'api': api, 'n': n}
            elif api == 'hash_path':
                names = list(sc['hashlib']) + ['__size__']
                r = call(gemato.hash.hash_path, path, names)
                if r[0] != 'ok':
                    violations.append(viol('hash.exception', '%s %s' % (r[1], r[2]), sig=r[1]))
                else:
                    got = r[1]
                    for a in sc['hashlib']:
                        if got.get(a) != hashlib.new(a, content).hexdigest():
                            violations.append(viol('hash.digest', 'hash_path %s wrong for len %d' % (a, n), sig=a))
                    if got.get('__size__') != n:
                        violations.append(viol('hash.size', 'hash_path size %r != %d' % (got.get('__size__'), n)))
            elif api == 'metadata':
                def pull():
                    g = gemato.verify.get_file_metadata(path, sc['hashes'])
                    try:
                        return list(g)
                    finally:
                        g.close()
                r = call(pull)
                if r[0] != 'ok':
                    violations.append(viol('hash.exception', '%s %s' % (r[1], r[2]), sig=r[1]))
                else:
                    vals = r[1]
                    sums = dict(vals[-1])
                    size = sums.pop('__size__', None)
                    if size != n:
                        violations.append(viol('hash.size', 'get_file_metadata __size__ %r != %d' % (size, n)))
                    exp = expected(content, sc['hashes'])
                    if sums != exp:
                        violations.append(viol('hash.digest', 'get_file_metadata digests differ for %s len %d' % (sc['hashes'], n),
                                               sig=','.join(k for k in exp if sums.get(k) != exp[k])))
                    if not sc.get('zero_size') and not skew and vals[3] != n:
                        violations.append(viol('hash.size', 'st_size %r != %d' % (vals[3], n)))
            elif api == 'verify':
                exp = expected(content, sc['hashes'])
                e = gemato.manifest.ManifestEntryDATA('f', n, dict(exp))
                r = call(gemato.verify.verify_path, path, e)
                if r[0] != 'ok' or r[1] != (True, []):
                    violations.append(viol('verify.true-entry-rejected', repr(r[1:])[:300]))
                # one digest altered in the last hex digit => must be reported
                for hname in sc['hashes']:
                    bad = dict(exp)
                    bad[hname] = bad[hname][:-1] + ('0' if bad[hname][-1] != '0' else '1')
                    e2 = gemato.manifest.ManifestEntryDATA('f', n, bad)
                    r2 = call(gemato.verify.verify_path, path, e2)
                    if r2[0] != 'ok' or r2[1][0] is not False or [d[0] for d in r2[1][1]] != [hname]:
                        violations.append(viol('verify.bad-digest-accepted', '%s: %r' % (hname, r2[1:]), sig=hname))
                # wrong size with right digests
                e3 = gemato.manifest.ManifestEntryDATA('f', n + 1, dict(exp))
                r3 = call(gemato.verify.verify_path, path, e3)
                if r3[0] != 'ok' or r3[1][0] is not False:
                    violations.append(viol('verify.bad-size-accepted', repr(r3[1:])[:300]))
            elif api == 'update':
                e = gemato.manifest.ManifestEntryDATA('f', 12345, {'MD5': 'x'})
                r = call(gemato.verify.update_entry_for_path, path, e, hashes=sc['hashes'])
                exp = expected(content, sc['hashes'])
                if r[0] != 'ok':
                    violations.append(viol('hash.exception', '%s %s' % (r[1], r[2]), sig=r[1]))
                elif e.size != n or e.checksums != exp:
                    violations.append(viol('hash.digest', 'update_entry_for_path wrote size %r sums %r' % (e.size, e.checksums)))
            elif api == 'cli':
                res = run_cli(['hash', '-H', ' '.join(sc['hashes']), path])
                exp = expected(content, sc['hashes'])
                line = res['out'].strip().split()
                ok = (res['kind'] == 'ok' and len(line) == 3 + 2 * len(exp)
                      and line[0] == 'DATA' and line[2] == str(n)
                      and dict(zip(line[3::2], line[4::2])) == exp)
                if not ok:
                    violations.append(viol('hash.cli', 'gemato hash printed %r (rc %r %s)' % (res['out'][:300], res.get('rc'), res.get('name'))))
            elif api == 'cli-stdin':
                raw = ShortRaw(content, sc['order_key'])
                stdin = io.TextIOWrapper(io.BufferedReader(raw, 8192), encoding='latin-1')
                res = run_cli(['hash', '-H', ' '.join(sc['hashes']), '-'], stdin=stdin)
                extra_short = raw.short
                exp = expected(content, sc['hashes'])
                line = res['out'].strip().split()
                ok = (res['kind'] == 'ok' and len(line) == 3 + 2 * len(exp)
                      and line[0] == 'STDIN' and line[2] == str(n)
                      and dict(zip(line[3::2], line[4::2])) == exp)
                if not ok:
                    violations.append(viol('hash.cli', 'gemato hash - printed %r (rc %r %s) for %d bytes on stdin' % (
                        res['out'][:300], res.get('rc'), res.get('name'), n), sig='stdin'))
            elif api == 'unsupported':
                name = sc['bad_name']
                e = gemato.manifest.ManifestEntryDATA('f', n, {name: '00'})
                # (asked twice: the answer to a request must not depend on the same request having been refused before)
                for nth_ in ('first', 'second'):
                    r = call(gemato.verify.verify_path, path, e)
                    ok = r[0] == 'GE' and r[1] == 'UnsupportedHash'
                    if not ok:
                        violations.append(viol('hash.unsupported-not-reported',
                                               'hash name %s: verify_path gave %r (%s request)' % (name, r[:2], nth_),
                                               sig='%s:%s' % (r[0], r[1] if r[0] != 'ok' else 'ok')))
                        break
                try:
                    hashlib.new(name)
                    hl_knows = True      # (hash_file takes hashlib's own names: 'sha256' is one, the Manifest name is SHA256)
                except (ValueError, TypeError):
                    hl_knows = False
                for nth_ in ('first', 'second'):
                    if hl_knows:
                        break
                    r = call(gemato.hash.hash_file, io.BytesIO(content), list(sc['hashlib']) + [name, '__size__'])
                    if not (r[0] == 'GE' and r[1] == 'UnsupportedHash'):
                        violations.append(viol('hash.unsupported-not-reported', 'hash_file with %r among the requested names gave %r (%s request)' % (
                            name, r[:2] if r[0] != 'ok' else ('ok', sorted(r[1])), nth_), sig='hash_file:' + nth_))
                        break
                # the unsupported name next to supported ones whose recorded values are right (before, between, after)
                good = expected(content, sc['hashes'])
                items = list(good.items())
                pos = int(sc['order_key'][:2], 16) % (len(items) + 1)
                items.insert(pos, (name, '00'))
                e = gemato.manifest.ManifestEntryDATA('f', n, dict(items))
                r = call(gemato.verify.verify_path, path, e)
                ok = r[0] == 'GE' and r[1] == 'UnsupportedHash'
                if not ok:
                    violations.append(viol('hash.unsupported-not-reported',
                                           'hash name %s at position %d among %r: verify_path gave %r' % (name, pos, sc['hashes'], r[:2]),
                                           sig='mixed:%s:%s' % (r[0], r[1] if r[0] != 'ok' else 'ok')))
                e = gemato.manifest.ManifestEntryDATA('f', 0, {})
                r = call(gemato.verify.update_entry_for_path, path, e, hashes=['SHA256', name])
                ok = r[0] == 'GE' and r[1] == 'UnsupportedHash'
                if not ok:
                    violations.append(viol('hash.unsupported-not-reported',
                                           'hash name %s: update_entry_for_path gave %r, entry %r' % (name, r[:2], e.checksums),
                                           sig='%s:%s' % (r[0], r[1] if r[0] != 'ok' else 'ok')))
                # spellings a crypto library may resolve through its alias table although hashlib does not list them
                for alias in ('SHA-256', 'sha3-256', 'ripemd', 'blake2b512', 'null', 'MD5', 'SHA512', '1.3.14.3.2.26', 'ssl3-md5', 'RMD160'):
                    if alias in hashlib.algorithms_available:
                        continue
                    ra = call(gemato.hash.hash_file, io.BytesIO(content), [alias])
                    if not (ra[0] == 'GE' and ra[1] == 'UnsupportedHash'):
                        violations.append(viol('hash.unsupported-not-reported', 'hash_file with the name %r (not in hashlib.algorithms_available) gave %r' % (
                            alias, ra[:2] if ra[0] != 'ok' else ('ok', dict(ra[1]))), sig='alias:' + alias))
                r = call(gemato.hash.hash_file, io.BytesIO(content), [name.lower() + '_nope'])
                if not (r[0] == 'GE' and r[1] == 'UnsupportedHash'):
                    violations.append(viol('hash.unsupported-not-reported', 'hash_file unknown hashlib name gave %r' % (r[:2],), sig=str(r[1])))
            if sc.get('rehash') and n > 0 and api in ('hash_path', 'metadata', 'verify') and not violations:
                # history in one process: the same inode hashed again after an in-place rewrite of equal length with the
                # timestamps put back (rsync --inplace -t, cp -p): the answer must be that of the bytes now in the file
                st_ = _o['os.stat'](path)
                content2 = bytes(b ^ 0x5a for b in content)
                with _o['open'](path, 'r+b') as f2:
                    f2.write(content2)
                _o['os.utime'](path, ns=(st_.st_atime_ns, st_.st_mtime_ns))
                if api == 'verify':
                    e = gemato.manifest.ManifestEntryDATA('f', n, dict(expected(content, sc['hashes'])))
                    r = call(gemato.verify.verify_path, path, e)
                    if r[0] != 'ok' or r[1][0] is not False:
                        violations.append(viol('hash.stale-after-rewrite', 'verify_path accepted the old digests after an in-place rewrite '
                                               '(same size, same mtime) of %d bytes: %r' % (n, r[1:]), sig='verify'))
                else:
                    names = list(sc['hashlib']) + ['__size__']
                    r = call(gemato.hash.hash_path, path, names)
                    if r[0] != 'ok' or any(r[1].get(a) != hashlib.new(a, content2).hexdigest() for a in sc['hashlib']):
                        violations.append(viol('hash.stale-after-rewrite', 'hash_path after an in-place rewrite (same size, same mtime) of %d bytes '
                                               'does not describe the new content' % n, sig='hash_path'))
        if seam.stats.get('leaked_fds'):
            pass
    if sc.get('read_fault') and sum(f_.get('_fired', 0) for f_ in seam.faults):
        surfaced = any(('EIO' in v_['detail'] or 'cli-exit' in v_['detail'] or 'Errno 5' in v_['detail']) for v_ in violations)
        if not surfaced:
            violations = [viol('hash.read-error-swallowed', '%s: read #%d of the file failed with EIO, yet the call reported a result (len %d, hint %s)' % (
                api, sc['read_fault'], n, sc['hint']), sig=api)]
        else:
            violations = []
    nontrivial = (seam.stats.get('short_reads', 0) + extra_short > 0 or n in THRESH
                  or sc['hint'] != 'true' or api == 'unsupported')
    res = mk_result([seam], violations, nontrivial, outcome={'api': api, 'n': n, 'viol': len(violations)}, ops=1,
                    counters={'api.' + api + ('-decompressing-stream' if sc.get('stream') else ''): 1, 'len_at_threshold': int(n in THRESH),
                              'read1_short': extra_short})
    return res
