"""C18 Bad input produces a diagnosed failure, not an internal error.

Dedicated batch (besides invariant I-internal, which every other check's
engine evaluates too): faults are token-level corruptions of stored Manifests
(valid UTF-8, valid compression) and odd tree states; the operations are
`gemato verify`, `gemato update` (whole tree and sub-directories) and `gemato
create` with every profile, plus the library calls, all under the seam with
permuted directory listings.  Oracle: only GematoException subclasses or a
genuine OSError (reproduced by a direct probe of the named path) may escape;
the CLI returns 0/1 and logs an error with exit 1.
"""
import errno
import os

from gemato.recursiveloader import ManifestRecursiveLoader
from gemato.profile import get_profile_by_name

from .. import gen_tree as GT
from .. import gen_repo as GR
from .. import gen_update as GU
from .. import grammar as G
from ..common import call, run_cli, mk_result, viol
from ..seam import Seam, orig as _o
from ..update_engine import run_history
from ..world import World, blocking_manifest

ID = 'C18'
LEVEL = 'exploration'
NO_SHRINK = ('hashes',)
RULE = ('each run = generated tree/repository + Manifest layout with 1-3 token-level corruptions of stored Manifest '
        'text (duplicate/dropped line, duplicate IGNORE, unknown tag, unknown/unsupported hash name, bad size, '
        'out-of-range/surrogate/NUL escapes, empty/absolute path, entry naming a directory or lying beneath a '
        'file, odd whitespace/CRLF, malformed TIMESTAMP), ancestors optionally re-hashed so that the damaged text '
        'is reached, or an odd tree state (file named files at package depth, unregistered Manifests under files/ '
        'or hidden directories, special files), then 1-4 operations out of CLI/library verify, keep-going verify, '
        'update (whole tree, sub-directory), create with every profile; a third of the runs are non-benign update '
        'histories; non-trivial = a corruption or odd state was applied; distinct = distinct seam event-log digest')
PLAN = {'quick': {'n': 10000, 'budget_s': 90, 'block': 30},
        'thorough': {'n': 500000, 'budget_s': 2400, 'block': 150}}
ASSUMPTIONS = ['Manifest texts are valid UTF-8 and valid compressed streams (the statement\'s scope); codec and Unicode-decoding errors of deliberately undecodable files are out of scope',
               'an OSError is genuine if a direct probe (stat/open) of the path it names fails with the same errno']

DAMAGE = ['dup-line', 'drop-line', 'dup-ignore', 'unknown-tag', 'unknown-hash', 'whirlpool', 'bad-size', 'neg-size',
          'huge-size', 'esc-overflow', 'esc-above-unicode', 'esc-surrogate', 'esc-nul', 'esc-bad', 'empty-path',
          'abs-path', 'dotdot-path', 'names-dir', 'beneath-file', 'crlf', 'tabs', 'trailing-space', 'bad-timestamp',
          'short-line', 'odd-checksum-count', 'ignore-top', 'ignore-dot', 'aux-no-files', 'aux-abs', 'dup-timestamp', 'dup-timestamp', 'ignore-hidden-dir', 'ignore-hidden-dir', 'dist-slash',
          'manifest-self', 'manifest-cycle', 'manifest-cycle-3', 'manifest-back-ref', 'manifest-missing', 'dup-manifest-entry', 'blank-lines', 'long-line', 'unicode-space',
          'size-superscript', 'size-circled', 'size-arabic-indic', 'size-fullwidth', 'size-plus', 'size-underscore',
          'size-float', 'size-hex', 'hash-value-odd', 'tag-lowercase', 'tag-unicode', 'path-only-escape', 'esc-abs-path', 'esc-abs-path']


def generate(rng, tier, idx):
    r = rng.random()
    if r < 0.3:
        sc = GU.gen_history(rng)
        for rnd in sc['rounds']:
            if rng.random() < 0.5:
                rnd['edits'] = rnd['edits'] + GU.gen_edits(rng, {'files': [t['p'] for t in sc['tree'] if t.get('k') == 'file'],
                                                                   'dirs': ['']}, 1, benign=False)
            if rng.random() < 0.4:
                rnd['update']['profile'] = rng.choice(['ebuild', 'old-ebuild'])
        sc['prop'] = ID
        sc['mode'] = 'history'
        return sc
    if r < 0.5:
        g = GR.gen_repo(rng)
        tree = g['tree']
        roles = g['roles']
        odd = []
        pk = roles['package_dirs']
        for _ in range(rng.choice([1, 2])):
            k = rng.choice(['file-named-files', 'manifest-under-files', 'manifest-in-hidden', 'fifo', 'dir-named-ebuild',
                            'metadata-xml-dir', 'manifest-dir', 'deep-files', 'empty-manifest-in-pkg', 'files-in-profiles',
                            'non-utf8-name', 'non-utf8-dir'])
            d = rng.choice(pk) if pk else 'x/y'
            if k == 'non-utf8-name':
                # a file name that is not valid UTF-8 (Latin-1 byte), as the filesystem hands it to Python
                odd.append({'m': 'add', 'p': d + '/caf\udce9.txt', 'k': 'file', 'c': 'latin-1 name', 'parents': True})
            elif k == 'non-utf8-dir':
                odd.append({'m': 'add', 'p': d + '/d\udcff/inner.txt', 'k': 'file', 'c': 'in a directory with a non-UTF-8 name', 'parents': True})
            elif k == 'file-named-files':
                odd.append({'m': 'add', 'p': d + '/files', 'k': 'file', 'c': 'i am a file', 'parents': True})
            elif k == 'manifest-under-files':
                odd.append({'m': 'add', 'p': d + '/files/Manifest', 'k': 'file', 'c': rng.choice(['', 'DATA x 1\n', 'junk\n']), 'parents': True})
                odd.append({'m': 'add', 'p': d + '/files/zz.patch', 'k': 'file', 'c': 'p', 'parents': True})
            elif k == 'manifest-in-hidden':
                odd.append({'m': 'add', 'p': d + '/.hidden/Manifest', 'k': 'file', 'c': '', 'parents': True})
                odd.append({'m': 'add', 'p': d + '/.hidden/f', 'k': 'file', 'c': 'f', 'parents': True})
            elif k == 'fifo':
                odd.append({'m': 'add', 'p': d + '/pipe', 'k': 'fifo', 'parents': True})
            elif k == 'dir-named-ebuild':
                odd.append({'m': 'add', 'p': d + '/x-1.ebuild/inner', 'k': 'file', 'c': 'i', 'parents': True})
            elif k == 'metadata-xml-dir':
                odd.append({'m': 'add', 'p': d + '/metadata.xml/inner', 'k': 'file', 'c': 'i', 'parents': True})
            elif k == 'manifest-dir':
                odd.append({'m': 'add', 'p': d + '/Manifest/inner', 'k': 'file', 'c': 'i', 'parents': True})
            elif k == 'deep-files':
                odd.append({'m': 'add', 'p': 'a/b/files/c/d', 'k': 'file', 'c': 'i', 'parents': True})
            elif k == 'empty-manifest-in-pkg':
                odd.append({'m': 'add', 'p': d + '/Manifest', 'k': 'file', 'c': '', 'parents': True})
            else:
                odd.append({'m': 'add', 'p': 'profiles/arch/files/x', 'k': 'file', 'c': 'i', 'parents': True})
        ops = []
        prof = rng.choice(['default', 'ebuild', 'old-ebuild'])
        ops.append({'op': 'create', 'profile': prof, 'api': rng.choice(['cli', 'lib'])})
        for _ in range(rng.choice([0, 1, 2])):
            k = rng.choice(['update', 'update-sub', 'verify', 'verify-kg'])
            o = {'op': k, 'profile': rng.choice([prof, prof, 'default', 'ebuild', 'old-ebuild']), 'api': rng.choice(['cli', 'lib'])}
            if k == 'update-sub':
                dirs = sorted(set(os.path.dirname(t['p']) for t in tree if '/' in t['p']) | set(os.path.dirname(e['p']) for e in odd))
                o['path'] = rng.choice(dirs) if dirs else ''
            ops.append(o)
        late = []
        if rng.random() < 0.5:
            late = odd
            odd = []
        return {'prop': ID, 'mode': 'repo', 'order_key': '%016x' % rng.getrandbits(64), 'tree': tree, 'manifests': [],
                'odd': odd, 'late_odd': late, 'ops': ops}
    g = GT.gen_tree(rng, {'top': 'Manifest', 'p_style': 0.15})
    info = g['info']
    dmg = []
    for _ in range(rng.choice([1, 1, 2, 3])):
        dmg.append({'p': rng.choice(info['manifests']), 'kind': rng.choice(DAMAGE), 'idx': rng.randrange(0, 50),
                    'fixup': rng.random() < 0.7})
    ops = []
    subs = [d for d in info['view_dirs'] if d]
    for _ in range(rng.choice([1, 2, 3, 4])):
        k = rng.choice(['verify', 'verify', 'verify-kg', 'update', 'update', 'update-sub', 'verify-sub', 'lookup'])
        o = {'op': k, 'api': rng.choice(['cli', 'lib']), 'profile': rng.choice(['default', 'default', 'ebuild', 'old-ebuild']),
             'hashes': rng.choice([['SHA256'], ['MD5', 'SHA1'], None])}
        if rng.random() < 0.12:
            o['hashes'] = rng.choice([['SHAKE_128'], ['SHA256', 'SHAKE_256'], ['FOO'], ['SHA224'], ['sha256'], ['SHA3_384', 'MD5'], ['BLAKE2S']])
        if k in ('update-sub', 'verify-sub') and subs:
            o['path'] = rng.choice(subs)
        if k == 'lookup':
            o['path'] = rng.choice(info['need']) if info['need'] else 'x'
        if o['api'] == 'cli' and rng.random() < 0.4:
            # further command-line options: each reaches code that the plain invocation does not (debug logging, forced and
            # incremental rewrites, TIMESTAMP refresh, compression, device checks, job counts, unsatisfiable -s)
            if k.startswith('verify'):
                o['xflags'] = rng.choice([['--debug'], ['-x'], ['-j', '1'], ['-j', '3'], ['-P'], ['-R'], ['-s'], ['-s', '-P'], ['--debug', '-x', '-j', '2']])
            elif k.startswith('update'):
                o['xflags'] = rng.choice([['--debug'], ['-f'], ['-i'], ['-t'], ['-i', '-t'], ['-x'], ['-c', '0'], ['-c', '1', '-C', 'xz'], ['-c', '100000', '-f'],
                                          ['-C', 'bz2'], ['-j', '2'], ['-S'], ['--debug', '-f', '-c', '64'], ['-P'], ['-t', '-f', '--debug']])
        ops.append(o)
    odd = []
    if rng.random() < 0.08:
        dd = rng.choice([''] + subs)
        odd.append({'m': 'add', 'p': (dd + '/' if dd else '') + rng.choice(['caf\udce9.txt', 'x\udc80y']), 'k': 'file', 'c': 'latin-1 name'})
    return {'prop': ID, 'mode': 'damage', 'order_key': '%016x' % rng.getrandbits(64), 'tree': g['tree'],
            'manifests': g['manifests'], 'damage': dmg, 'ops': ops, 'odd': odd}


def apply_damage(w, sc, d):
    p = os.path.join(w.root, d['p'])
    try:
        with _o['open'](p, 'rb') as f:
            text = G.decompress(f.read(), G.comp_of(d['p'])).decode('utf8')
    except Exception:
        return False
    lines = text.split('\n')
    if lines and lines[-1] == '':
        lines.pop()
    idx = d['idx'] % len(lines) if lines else 0
    k = d['kind']
    line = lines[idx] if lines else 'DATA x 1'
    sl = line.split(' ')
    mdir = os.path.dirname(d['p'])

    def repl_path(newp):
        if lines and len(sl) >= 2:
            s2 = list(sl)
            s2[1] = newp
            lines[idx] = ' '.join(s2)
        else:
            lines.append('DATA %s 1' % newp)
    if k == 'dup-line':
        lines.insert(idx, line)
    elif k == 'drop-line' and lines:
        del lines[idx]
    elif k == 'dup-ignore':
        lines += ['IGNORE ign-dup', 'IGNORE ign-dup']
    elif k == 'unknown-tag':
        lines.append('FOO bar 1')
    elif k == 'unknown-hash':
        lines.append('DATA some-file 3 FOO 00')
        repl_path(sl[1] if len(sl) > 1 else 'x')
        if len(sl) >= 5:
            s2 = list(sl)
            # (names the table does not know, among them names hashlib does know - some of which need arguments)
            s2[3] = ('NOPE', 'SHAKE_128', 'SHAKE_256', 'SHA224', 'SHA384', 'SHA3_224', 'shake_128', 'MD4', 'SM3', 'BLAKE2S')[idx % 10]
            lines[idx] = ' '.join(s2)
    elif k == 'whirlpool':
        lines.append('DATA wp-file 3 WHIRLPOOL 00')
        if len(sl) >= 5:
            s2 = list(sl)
            s2[3] = 'WHIRLPOOL'
            lines[idx] = ' '.join(s2)
    elif not lines:
        lines.append('DATA fallback 1')
    elif k == 'bad-size' and len(sl) >= 3:
        s2 = list(sl)
        s2[2] = 'abc'
        lines[idx] = ' '.join(s2)
    elif k == 'neg-size' and len(sl) >= 3:
        s2 = list(sl)
        s2[2] = '-1'
        lines[idx] = ' '.join(s2)
    elif k == 'huge-size' and len(sl) >= 3:
        s2 = list(sl)
        s2[2] = '9' * 40
        lines[idx] = ' '.join(s2)
    elif k.startswith('size-') and len(sl) >= 3:
        s2 = list(sl)
        s2[2] = {'size-superscript': '\u00b2', 'size-circled': '\u2460', 'size-arabic-indic': '\u0663',
                 'size-fullwidth': '\uff11\uff12', 'size-plus': '+5', 'size-underscore': '1_0', 'size-float': '1.0',
                 'size-hex': '0x10'}[k]
        lines[idx] = ' '.join(s2)
    elif k == 'hash-value-odd' and len(sl) >= 5:
        s2 = list(sl)
        s2[4] = 'zz\u00e9' + s2[4][3:]
        lines[idx] = ' '.join(s2)
    elif k == 'tag-lowercase':
        lines[idx:idx + 1] = [line.replace(sl[0], sl[0].lower(), 1)]
    elif k == 'tag-unicode':
        lines.append('D\u0410TA cyrillic-tag 1')
    elif k == 'path-only-escape':
        repl_path('\\x2F')
    elif k == 'esc-abs-path':
        # an absolute path hidden behind an escape (the parser only refuses a literal leading slash)
        repl_path(('\\x2Fabs/file', '\\x2Ftmp', '\\x2F\\x2Fdouble', '\\u002Fetc/passwd')[d['idx'] % 4])
        if d['idx'] % 3 == 0:
            lines.append('IGNORE \\x2Fabs')
            lines.append('IGNORE \\x2Fabs')
    elif k == 'esc-overflow':
        repl_path('esc\\UFFFFFFFFx')
    elif k == 'esc-above-unicode':
        repl_path('esc\\U00110000x')
    elif k == 'esc-surrogate':
        repl_path('esc\\uD800x')
    elif k == 'esc-nul':
        # (in the file name, in a directory component, or both)
        repl_path(('esc\\x00x', 'dir\\x00name/file', 'a/b\\x00/c', 'd\\x00/e\\x00')[idx % 4])
    elif k == 'esc-bad':
        repl_path('esc\\q')
    elif k == 'empty-path':
        lines.append('DATA  1')
    elif k == 'abs-path':
        repl_path('/etc/passwd')
    elif k == 'dotdot-path':
        repl_path('../outside')
    elif k == 'names-dir':
        dirs = [t['p'] for t in sc['tree'] if t.get('k') == 'dir']
        tgt = dirs[d['idx'] % len(dirs)] if dirs else '.'
        lines.append('DATA %s 0' % G.enc_path(os.path.relpath(tgt, mdir or '.')))
    elif k == 'beneath-file':
        files = [t['p'] for t in sc['tree'] if t.get('k') == 'file']
        tgt = files[d['idx'] % len(files)] if files else 'f'
        lines.append('DATA %s/below 0' % G.enc_path(os.path.relpath(tgt, mdir or '.')))
    elif k == 'crlf':
        lines = [l + '\r' for l in lines]
    elif k == 'tabs':
        lines[idx:idx + 1] = [line.replace(' ', '\t')]
    elif k == 'trailing-space':
        lines[idx:idx + 1] = [line + '   ']
    elif k == 'bad-timestamp':
        lines.append('TIMESTAMP yesterday')
    elif k == 'short-line':
        lines.append('DATA')
        lines.append('MANIFEST x')
    elif k == 'odd-checksum-count':
        lines.append('DATA occ 1 MD5')
    elif k == 'ignore-top':
        lines.append('IGNORE .')
    elif k == 'ignore-dot':
        lines.append('IGNORE ./' + (sl[1] if len(sl) > 1 else 'x'))
    elif k == 'aux-no-files':
        lines.append('AUX ../escape 1')
        lines.append('AUX ' + (sl[1] if len(sl) > 1 else 'x') + ' 1')
    elif k == 'aux-abs':
        lines.append(('AUX /abs-aux 1', 'AUX \\x2F 1', 'AUX / 1', 'AUX //x 1')[d['idx'] % 4])
    elif k == 'ignore-hidden-dir':
        # redundant but legal: an IGNORE entry naming a dot-directory that exists
        nm = ('.cache', '.git', '.hidden/deeper')[d['idx'] % 3]
        try:
            os.makedirs(os.path.join(w.root, mdir, nm), exist_ok=True)
            with _o['open'](os.path.join(w.root, mdir, nm, 'inside'), 'w') as f:
                f.write('x')
        except OSError:
            return False
        lines.append('IGNORE ' + nm.split('/')[0])
        if d['idx'] % 2:
            lines.append('IGNORE ' + nm.split('/')[0])
    elif k == 'dup-timestamp':
        # several TIMESTAMP lines are legal; only the first one found is refreshed by an update
        lines.insert(0, 'TIMESTAMP 2019-01-01T00:00:00Z')
        lines.append('TIMESTAMP 2021-06-01T12:00:00Z')
        if d['idx'] % 2:
            lines.append('TIMESTAMP 2021-06-01T12:00:00Z')
    elif k == 'dist-slash':
        lines.append('DIST a/b 1')
    elif k == 'manifest-self':
        lines.append('MANIFEST %s 0' % os.path.basename(d['p']))
    elif k in ('manifest-cycle', 'manifest-cycle-3', 'manifest-back-ref'):
        # Manifests of one directory referencing each other in a cycle (the back reference is size-only and need
        # not match: its target is already loaded when it is met)
        import hashlib as _hl
        me = os.path.basename(d['p'])
        back = None
        if k == 'manifest-back-ref':
            for m_ in sc['manifests']:
                if os.path.dirname(m_['p']) == mdir and m_['p'] != d['p'] and any(
                        e_.get('tag') == 'MANIFEST' and e_.get('path') == me for e_ in m_['entries']):
                    back = os.path.basename(m_['p'])
        if back is not None:
            lines.append('MANIFEST %s %d' % (G.enc_path(back), d['idx']))
        else:
            names = [('Manifest.cyc', 'more')[d['idx'] % 2]]
            if k == 'manifest-cycle-3':
                names.append('Manifest.cyc2')
            target = me
            for nm in reversed(names):
                body = ('MANIFEST %s %d\n' % (G.enc_path(target), d['idx'] % 7)).encode('utf8')
                try:
                    with _o['open'](os.path.join(w.root, mdir, nm), 'wb') as f:
                        f.write(body)
                except OSError:
                    return False
                target = nm
            lines.append('MANIFEST %s %d SHA256 %s' % (target, len(body), _hl.sha256(body).hexdigest()))
    elif k == 'manifest-missing':
        lines.append('MANIFEST nowhere/Manifest 0')
    elif k == 'dup-manifest-entry':
        ms = [l for l in lines if l.startswith('MANIFEST ')]
        if ms:
            lines.append(ms[0])
            lines.append(ms[0].replace('MANIFEST ', 'DATA ', 1))
    elif k == 'blank-lines':
        lines = ['', '  '] + lines + ['', '\t']
    elif k == 'long-line':
        lines.append('DATA ' + 'x' * 5000 + ' 1')
    elif k == 'unicode-space':
        lines.append('DATA uni space 1')
        lines.append('IGNORE nb sp')
    else:
        return False
    new = ('\n'.join(lines) + '\n').encode('utf8')
    with _o['open'](p, 'wb') as f:
        f.write(G.compress(new, G.comp_of(d['p'])))
    return True


def fixup_chain(w, sc, mpath):
    """Re-hash MANIFEST entries on the way up so the damaged text is accepted."""
    cur = mpath
    seen = set()
    while cur not in seen:
        seen.add(cur)
        parent = None
        for m in sc['manifests']:
            md = os.path.dirname(m['p'])
            for e in m['entries']:
                if e.get('tag') == 'MANIFEST' and os.path.normpath(os.path.join(md, e['path'])) == cur:
                    parent = m
        if parent is None:
            return
        # rewrite only the MANIFEST line(s) of the parent, keeping the rest of its current text
        pp = os.path.join(w.root, parent['p'])
        try:
            with _o['open'](pp, 'rb') as f:
                text = G.decompress(f.read(), G.comp_of(parent['p'])).decode('utf8')
            with _o['open'](os.path.join(w.root, cur), 'rb') as f:
                data = f.read()
        except Exception:
            return
        rel = G.enc_path(os.path.relpath(cur, os.path.dirname(parent['p']) or '.'))
        out = []
        for l in text.split('\n'):
            sl = l.split(' ')
            if len(sl) >= 3 and sl[0] == 'MANIFEST' and sl[1] == rel:
                hs = sl[3::2]
                try:
                    sums = G.digests(data, hs)
                except Exception:
                    out.append(l)
                    continue
                l = ' '.join(['MANIFEST', rel, str(len(data))] + [x for h in sorted(sums) for x in (h, sums[h])])
            out.append(l)
        with _o['open'](pp, 'wb') as f:
            f.write(G.compress('\n'.join(out).encode('utf8'), G.comp_of(parent['p'])))
        cur = parent['p']


from ..common import genuine_oserror   # noqa: E402


def judge(r, what, violations, counters, cli=None):
    cls = r[0]
    counters['outcome.' + cls] = counters.get('outcome.' + cls, 0) + 1
    if cls == 'INTERNAL':
        violations.append(viol('I-internal', 'internal error escaped: %s: %s [%s]' % (r[1], r[2], what), sig=r[1]))
    elif cls == 'OS':
        if not genuine_oserror(r[2]):
            violations.append(viol('oserror-not-genuine', '%s: %s escaped but probing %r does not fail that way' % (
                what, r[1], getattr(r[2], 'filename', None)), sig=r[1]))
    elif cls == 'STEP-LIMIT':
        violations.append(viol('no-termination', '%s exceeded the step cap' % what))
    if cli is not None and cli['kind'] == 'ok':
        if cli['rc'] not in (0, 1):
            violations.append(viol('cli.exit-status', '%s: exit status %r' % (what, cli['rc']), sig=str(cli['rc'])))
        if cli['rc'] == 1 and not any(lv == 'ERROR' for lv, _ in cli['log']):
            violations.append(viol('cli.no-log', '%s: exit 1 without a logged error' % what))


def run_op(w, seam, op, opi, violations, counters):
    top = os.path.join(w.root, 'Manifest')
    kind = op['op']
    path = op.get('path', '')
    prof = op.get('profile', 'default')
    hashes = op.get('hashes')
    what = '%s %s' % (op.get('api'), ' '.join('%s=%r' % kv for kv in sorted(op.items()) if kv[0] != 'api'))
    with seam:
        seam.begin_op(opi, step_cap=20000)
        if op.get('api') == 'cli' and kind != 'lookup':
            xf = list(op.get('xflags', []))
            if kind in ('verify', 'verify-sub'):
                argv = ['verify'] + xf + [os.path.join(w.root, path) if path else w.root]
            elif kind == 'verify-kg':
                argv = ['verify', '-k'] + xf + [w.root]
            elif kind in ('update', 'update-sub'):
                argv = ['update', '-p', prof] + xf + (['-H', ' '.join(hashes)] if hashes else []) + [os.path.join(w.root, path) if path else w.root]
            else:
                argv = ['create', '-p', prof] + (['-H', ' '.join(hashes)] if hashes else []) + [w.root]
            c = run_cli(argv)
            if c['kind'] == 'ok':
                r = ('ok', c['rc'])
            elif c['kind'] == 'EXIT':
                r = ('ok', c['rc'])
            else:
                r = (c['kind'], c['name'], c.get('exc'))
            judge(r, what, violations, counters, cli=c)
            return r
        if kind in ('verify', 'verify-sub'):
            r = call(lambda: ManifestRecursiveLoader(top).assert_directory_verifies(path))
        elif kind == 'verify-kg':
            r = call(lambda: ManifestRecursiveLoader(top).assert_directory_verifies('', fail_handler=lambda e: False))
        elif kind == 'lookup':
            def lk():
                m = ManifestRecursiveLoader(top)
                m.find_path_entry(path)
                m.verify_path(path)
                m.find_dist_entry('dist-1.tar', os.path.dirname(path))
                m.find_timestamp()
                return True
            r = call(lk)
        else:
            def upd():
                kw = {'profile': get_profile_by_name(prof)}
                if hashes:
                    kw['hashes'] = hashes
                if kind == 'create':
                    kw['allow_create'] = True
                m = ManifestRecursiveLoader(top, **kw)
                if m.hashes is None:
                    m.hashes = ['SHA256']
                m.update_entries_for_directory(path)
                m.save_manifests()
                return True
            r = call(upd)
    judge(r, what, violations, counters)
    return r


def execute(sc):
    if sc.get('mode') == 'history':
        h = run_history(sc, want_idempotence=False)
        vs = [v for v in h['violations'] if v['clause'] == 'I-internal']
        c = dict(h['counters'])
        for name, fname, ok in h.get('os_genuine', []):
            if not ok:
                vs.append(viol('oserror-not-genuine', '%s escaped but probing %r does not fail that way' % (name, fname), sig=name))
        c['mode.history'] = 1
        return mk_result(h['seams'], vs, True, outcome=h['outcome'], dontcare=h['zones'], counters=c, ops=len(h['results']))
    violations = []
    counters = {'mode.' + sc.get('mode', '?'): 1}
    outcome = []
    applied = 0
    with World(sc) as w:
        w.build()
        for m in sc.get('odd', []):
            applied += 1 if w.mutate(m) else 0
        for d in sc.get('damage', []):
            if apply_damage(w, sc, d):
                applied += 1
                counters['damage.' + d['kind']] = counters.get('damage.' + d['kind'], 0) + 1
                if d.get('fixup'):
                    fixup_chain(w, sc, d['p'])
        seam = Seam(w.root, order_key=sc['order_key'], virtual_root=True)
        if blocking_manifest(w.root):
            return mk_result([seam], [], False, outcome='skipped: FIFO Manifest', dontcare={'fifo-manifest': 1})
        for i, op in enumerate(sc.get('ops', [])):
            if i == 1:
                for m in sc.get('late_odd', []):
                    applied += 1 if w.mutate(m) else 0
            r = run_op(w, seam, op, i, violations, counters)
            outcome.append([op['op'], op.get('api'), r[0], str(r[1])[:50]])
            if len(violations) > 6:
                break
    return mk_result([seam], violations, applied > 0, outcome=outcome, counters=counters, ops=len(sc.get('ops', [])))
