"""C13 Compression is transparent and follows the watermark.

(a) Transparency: the same logical Manifest tree is materialised in several
worlds that differ only in the compression format assigned to each
sub-Manifest; the same storage corruptions are applied; verification and
lookup results must be identical across the assignments.
(b) Watermark: histories of saves with watermarks placed at size-1 / size /
size+1 of a Manifest in the tree (resolved when the operation starts), 0 and
beyond the largest, every target format, forced and unforced, in both
directions; the on-disk auditor checks the iff-rule, one physical file per
logical Manifest, parents naming the new file, and that the tree verifies.
"""
import copy
import os

from gemato.recursiveloader import ManifestRecursiveLoader

from .. import gen_tree as GT
from .. import gen_update as GU
from .. import grammar as G
from ..common import call, mk_result, viol, internal_violations
from ..model import Model, logical_name
from ..oracles import check_strict_verify
from ..seam import Seam
from ..update_engine import run_history
from ..world import World, blocking_manifest

ID = 'C13'
LEVEL = 'exploration'
NO_SHRINK = ('hashes',)
FAMILIES = ('wm', 'transp')
WM_AUDIT = ('audit.verify-after-update', 'audit.manifest-leftover', 'audit.manifest-entry-stale',
            'audit.model-disagrees', 'audit.file-covered-twice', 'audit.file-not-covered')
RULE = ('each run is either (a) a transparency twin set: one generated tree + Manifest layout materialised under 3 '
        'compression assignments (plain/gz/bz2/lzma/xz per sub-Manifest) with identical corruptions, probed by '
        'strict and keep-going verification, verify_path, find_path_entry and find_dist_entry, results compared '
        'across assignments; or (b) a watermark history: updates/saves with watermark 0 / size-1 / size / size+1 '
        'of a Manifest / beyond the largest, formats gz/bz2/lzma/xz, forced and unforced, repeated in both '
        'directions, audited on disk; non-trivial = at least one sub-Manifest exists; distinct = distinct seam '
        'event-log digest')
PLAN = {'quick': {'n': 6000, 'budget_s': 90, 'block': 25},
        'thorough': {'n': 300000, 'budget_s': 2400, 'block': 150}}
ASSUMPTIONS = ['results are compared modulo the compression suffix in reported Manifest paths']

SUFF = [None, 'gz', 'bz2', 'lzma', 'xz']


def generate(rng, tier, idx):
    if rng.random() < 0.45:
        g = GT.gen_tree(rng, {'top': 'Manifest', 'p_conflict': 0.05, 'p_style': 0.12})
        info = g['info']
        subs = [m for m in info['manifests'] if m != 'Manifest']
        assigns = []
        for _ in range(2):
            assigns.append(dict((logical_name(m), rng.choice(SUFF)) for m in subs))
        muts = GT.gen_mutations(rng, info, rng.choice([0, 0, 1, 2, 3]))
        # only corruptions whose meaning does not depend on the stored format:
        # byte-level damage of a Manifest file is a different fault per format,
        # and stray files must not collide with a re-assigned Manifest name
        mset = set(info['manifests'])
        # (a Manifest replaced by a symlink reads whatever the link points at - an empty file is a valid plain
        # Manifest and an invalid compressed one)
        muts = [m for m in muts if not (m['p'] in mset and m['m'] not in ('delete', 'retype'))
                and not (m['p'] in mset and m['m'] == 'retype' and m.get('k') == 'symlink')
                and not (m['m'] == 'add' and os.path.basename(m['p']).startswith('Manifest'))]
        probes = [p for p in info['need']]
        rng.shuffle(probes)
        return {'prop': ID, 'mode': 'transparency', 'order_key': '%016x' % rng.getrandbits(64),
                'chunks': rng.choice([None, None, 'mixed', 'tiny', 4096]),
                'tree': g['tree'], 'manifests': g['manifests'], 'muts': muts, 'assigns': assigns,
                'probes': probes[:3], 'subs': sorted(set([''] + [d for d in info['view_dirs'] if d and rng.random() < 0.3]))[:3]}
    sc = GU.gen_history(rng, {'tree': {'p_dup': 0.02}, 'p_variant_sibling': 0.0})      # (formats are redrawn below)
    sc['prop'] = ID
    sc['mode'] = 'watermark'
    logical = sorted(set(logical_name(m['p']) for m in sc['manifests'] if m['p'] != 'Manifest'))
    for i in range(rng.choice([1, 2, 3])):
        u = {'api': rng.choice(['lib', 'lib', 'cli']), 'hashes': sc['rounds'][-1]['update'].get('hashes') or ['SHA256'],
             'force': rng.random() < 0.7, 'format': rng.choice(['gz', 'bz2', 'lzma', 'xz', None])}
        if u['format'] is None:
            del u['format']
        r = rng.random()
        if r < 0.12:
            # the watermark comes from the profile (128), only the format is given
            u['profile'] = rng.choice(['ebuild', 'old-ebuild'])
            u['api'] = rng.choice(['cli', 'cli', 'lib'])
        elif r < 0.6 and logical:
            u['wm_of'] = [rng.choice(logical), rng.choice([-1, 0, 1])]
        else:
            u['watermark'] = rng.choice([0, 0, 1, 50, 100000])
        sc['rounds'].append({'edits': GU.gen_edits(rng, {'files': [t['p'] for t in sc['tree'] if t.get('k') == 'file'],
                                                         'dirs': ['']}, rng.choice([0, 0, 1])),
                             'update': u})
    if rng.random() < 0.25:
        sc['unlink_fault'] = rng.choice(['EPERM', 'EBUSY', 'EIO', 'EACCES'])
    return sc


def reassign(sc, amap):
    """same logical tree, other compression suffixes for the sub-Manifests"""
    sc2 = copy.deepcopy(sc)
    ren = {}
    for m in sc2['manifests']:
        ln = logical_name(m['p'])
        if m['p'] != 'Manifest' and ln in amap:
            newp = ln + ('.' + amap[ln] if amap[ln] else '')
            ren[m['p']] = newp
    for m in sc2['manifests']:
        md = os.path.dirname(m['p'])
        for e in m['entries']:
            if e.get('tag') == 'MANIFEST':
                full = os.path.normpath(os.path.join(md, e['path'])) if md else e['path']
                if full in ren:
                    e['path'] = os.path.relpath(ren[full], md or '.')
        if m['p'] in ren:
            m['p'] = ren[m['p']]
    for mu in sc2.get('muts', []):
        if mu['p'] in ren:
            mu['p'] = ren[mu['p']]
    return sc2


def norm_path(p):
    if p is None:
        return None
    return logical_name(p)


def observe(sc):
    """Run the probes in one materialisation; returns (observations, seam, zones, internal results)."""
    obs = []
    results = []
    with World(sc) as w:
        w.build()
        for m in sc.get('muts', []):
            w.mutate(m)
        seam = Seam(w.root, order_key=sc['order_key'], read_chunks=sc.get('chunks'))
        if blocking_manifest(w.root):
            return None, seam, [], None
        top = os.path.join(w.root, 'Manifest')
        model = Model(w.root, 'Manifest')
        mviol = []
        with seam:
            for sub in sc.get('subs', ['']):
                v = model.verdict(sub)
                r = call(lambda: ManifestRecursiveLoader(top).assert_directory_verifies(sub))
                results.append(r)
                vs, zone = check_strict_verify(v, r, 'verify(%r)' % sub)
                mviol += vs
                if r[0] == 'ok':
                    obs.append(('verify', sub, 'ok', r[1]))
                elif r[0] == 'GE':
                    # which of several offending paths is named first may depend on sizes; keep the class
                    obs.append(('verify', sub, r[0], r[1]))
                else:
                    obs.append(('verify', sub, r[0], r[1]))
                calls = []
                r = call(lambda: ManifestRecursiveLoader(top).assert_directory_verifies(
                    sub, fail_handler=lambda e: calls.append(norm_path(e.path)) or False))
                results.append(r)
                obs.append(('verify-kg', sub, r[0], r[1] if r[0] != 'ok' else r[1], tuple(sorted(calls)) if r[0] == 'ok' else ()))
            for p in sc.get('probes', []):
                def fe():
                    e = ManifestRecursiveLoader(top).find_path_entry(p)
                    return None if e is None else (e.tag, getattr(e, 'size', None), tuple(sorted(getattr(e, 'checksums', {}).items())))
                r = call(fe)
                results.append(r)
                obs.append(('find_path_entry', p, r[0], r[1] if r[0] == 'ok' else (r[1], norm_path(getattr(r[2], 'path', None)))))
                r = call(lambda: ManifestRecursiveLoader(top).verify_path(p)[0])
                results.append(r)
                obs.append(('verify_path', p, r[0], r[1] if r[0] == 'ok' else (r[1], norm_path(getattr(r[2], 'path', None)))))
                def fd():
                    e = ManifestRecursiveLoader(top).find_dist_entry('dist-1.tar', os.path.dirname(p))
                    return None if e is None else (e.size, tuple(sorted(e.checksums.items())))
                r = call(fd)
                results.append(r)
                obs.append(('find_dist_entry', p, r[0], r[1] if r[0] == 'ok' else (r[1], norm_path(getattr(r[2], 'path', None)))))
    return obs, seam, mviol, results


def execute(sc):
    if sc.get('mode') == 'watermark':
        faults = None
        if sc.get('unlink_fault_plan') is not None:
            faults = [dict(sc['unlink_fault_plan'])]
        elif sc.get('unlink_fault'):
            # the removal of a superseded Manifest file fails during the LAST save of the history (EPERM, EBUSY, EIO):
            # the save must not report success with two files left for one Manifest
            h0 = run_history(copy.deepcopy(sc), want_idempotence=False, audits=False)
            wr = h0['seams'][0].write_events
            un = [e for e in wr if e[1] == 'unlink']
            if un:
                last_op = max(e[0] for e in wr)
                first_in_last = [i for i, e in enumerate(un) if e[0] >= last_op - 1]
                if first_in_last:
                    faults = [{'kinds': ['unlink'], 'nth': first_in_last[0] + 1, 'errno': sc['unlink_fault']}]
        h = run_history(sc, want_idempotence=False, faults=faults)
        vs = [v for v in h['violations'] if v['clause'].split('.')[0] in FAMILIES or v['clause'] in WM_AUDIT]
        c = dict(h['counters'])
        if faults and sum(f_.get('_fired', 0) for f_ in h['seams'][0].faults):
            c['saves_with_a_failing_unlink'] = 1
        c['mode.watermark'] = 1
        nontrivial = c.get('audited_updates', 0) > 0
        return mk_result(h['seams'], vs, nontrivial, outcome=h['outcome'], dontcare=h['zones'], counters=c, ops=len(h['results']))
    # transparency
    violations = []
    seams = []
    base_obs, seam, mviol, results = observe(sc)
    seams.append(seam)
    if base_obs is None:
        return mk_result(seams, [], False, outcome='skipped: FIFO Manifest', dontcare={'fifo-manifest': 1})
    violations += [v for v in mviol if v['clause'] in ('verify.false-success', 'verify.false-alarm')]
    violations += internal_violations(results)
    nsub = len([m for m in sc.get('manifests', []) if m['p'] != 'Manifest'])
    compared = 0
    for amap in sc.get('assigns', []):
        sc2 = reassign(sc, amap)
        obs2, seam2, mviol2, results2 = observe(sc2)
        seams.append(seam2)
        if obs2 is None:
            continue
        compared += 1
        if obs2 != base_obs:
            diff = [(a, b) for a, b in zip(base_obs, obs2) if a != b]
            # two runs that both FAIL a verification, with different first failures (a symlink loop, a genuine OS error and
            # a mismatch in one tree: strict mode stops at whichever the walk meets first, and the names of the Manifest
            # files take part in the enumeration order) do not disagree about the tree
            if diff and all(len(a) >= 3 and len(b) >= 3 and a[0] == b[0] == 'verify' and a[1] == b[1] and
                            a[2] in ('GE', 'OS') and b[2] in ('GE', 'OS') for a, b in diff):
                continue
            diff = diff[:2]
            violations.append(viol('transp.results-differ', 'compression assignment %r changes results: %r' % (amap, diff), sig=diff[0][0][0] if diff else 'len'))
    c = {'mode.transparency': 1, 'assignments_compared': compared, 'sub_manifests': nsub}
    return mk_result(seams, violations, nsub > 0 and compared > 0, outcome=[str(o)[:80] for o in base_obs[:4]], counters=c,
                     ops=len(base_obs) * (1 + compared))
