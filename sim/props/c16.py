"""C16 Tree walks always terminate and respect filesystem boundaries.

World: up to 6 directories with any set of directory symlinks among them
(self, parent, ancestor, root, sibling, mutual pairs, chains), file symlink
loops, IGNOREs on or above links, hidden links, and a second "filesystem"
(another device id in the seam's mount table) mounted in through a symlink or
as a plain sub-directory.  Oracle: bounded liveness (step cap at the seam,
derived from the visits the reference walk predicts) + M-walk safety.
"""
import os

from gemato.recursiveloader import ManifestRecursiveLoader

from .. import grammar as G
from ..common import call, mk_result, run_cli, viol, internal_violations, cli_as_call
from ..model import probe, psw, pjoin
from ..oracles import describe
from ..seam import Seam, orig as _o
from ..world import World

ID = 'C16'
LEVEL = 'exploration'
RULE = ('each run = generated directory graph (<= 6 directories, 0-4 directory symlinks incl. loops of every '
        'shape, file symlink loops, IGNORE/hidden placement, a second device mounted via symlink or as a '
        'sub-directory, empty unregistered sub-Manifests in link-free graphs) + operations verify / update / create / unregistered-Manifest scan through library '
        'and CLI, one-file-system mode on/off, under a per-operation step cap; non-trivial = the graph has '
        'a directory symlink or a device boundary; distinct = distinct seam event-log digest')
PLAN = {'quick': {'n': 12000, 'budget_s': 90, 'block': 40},
        'thorough': {'n': 600000, 'budget_s': 2400, 'block': 200}}
ASSUMPTIONS = ['loops are defined on (device, inode) identity of directories along the walk path (M-walk)',
               'which path a loop error names is not checked']

DN = ['a', 'b', 'c', 'd', 'e', 'f']


def generate(rng, tier, idx):
    nd = rng.randrange(1, 7)
    dirs = []
    for i in range(nd):
        parent = rng.choice([''] + dirs) if dirs else ''
        if parent.count('/') >= 3:
            parent = ''
        dirs.append(pjoin(parent, DN[i]))
    tree = [{'p': 'tree/' + d, 'k': 'dir'} for d in dirs]
    files = []
    for d in [''] + dirs:
        for j in range(rng.choice([0, 1, 1, 2])):
            p = pjoin(d, 'f%d' % j)
            files.append(p)
            tree.append({'p': 'tree/' + p, 'k': 'file', 'c': 'data ' + p})
    links = []
    nl = rng.choice([0, 1, 1, 1, 2, 2, 3, 4])
    ext = False
    for j in range(nl):
        d = rng.choice([''] + dirs)
        name = rng.choice(['l%d' % j, 'l%d' % j, '.hl%d' % j])
        p = pjoin(d, name)
        kind = rng.choice(['self', 'parent', 'ancestor', 'root', 'sibling', 'any', 'any', 'ext', 'file-loop'])
        depth = 0 if not d else d.count('/') + 1
        if kind == 'self':
            t = '.'
        elif kind == 'parent':
            t = '..'
        elif kind == 'ancestor':
            t = '/'.join(['..'] * rng.randrange(1, depth + 1)) if depth else '.'
        elif kind == 'root':
            t = '/'.join(['..'] * depth) if depth else '.'
        elif kind in ('sibling', 'any') and dirs:
            tgt = rng.choice(dirs)
            t = os.path.relpath(tgt, d or '.')
        elif kind == 'ext':
            t = os.path.relpath('../mnt1', d or '.')
            ext = True
        elif kind == 'file-loop':
            tree.append({'p': 'tree/' + p, 'k': 'symlink', 't': name + 'x'})
            tree.append({'p': 'tree/' + p + 'x', 'k': 'symlink', 't': name})
            continue
        else:
            t = '.'
        links.append(p)
        tree.append({'p': 'tree/' + p, 'k': 'symlink', 't': t})
    # unregistered sub-Manifests (empty files named Manifest no MANIFEST entry refers to): the updater loads them
    # during its scan, i.e. between the device/loop checks of one walk.  Only in graphs without internal directory
    # links (a Manifest reachable under two paths is another subject)
    unreg = []
    internal = [t_ for t_ in tree if t_.get('k') == 'symlink' and not t_['t'].endswith('mnt1') and not t_['t'].startswith('l') and not t_['t'].startswith('.hl')]
    if dirs and not internal and rng.random() < 0.4:
        for d in rng.sample(dirs, min(len(dirs), rng.choice([1, 1, 2]))):
            unreg.append(d)
            tree.append({'p': 'tree/' + d + '/Manifest', 'k': 'file', 'c': ''})
    mounts = {}
    if ext or rng.random() < 0.15:
        tree.append({'p': 'mnt1', 'k': 'dir'})
        tree.append({'p': 'mnt1/m0', 'k': 'file', 'c': 'on other fs'})
        if rng.random() < 0.5:
            tree.append({'p': 'mnt1/sub/m1', 'k': 'file', 'c': 'deeper on other fs'})
        mounts['mnt1'] = 2001
    if dirs and rng.random() < 0.25:
        mounts['tree/' + rng.choice(dirs)] = 2002
    if files and rng.random() < 0.08:
        mounts['tree/' + rng.choice(files)] = 2003     # a single file bind-mounted from elsewhere
    ignores = []
    if rng.random() < 0.4:
        pool = links + dirs
        if pool:
            ig = rng.choice(pool)
            if rng.random() < 0.3 and '/' in ig:
                ig = os.path.dirname(ig)
            ignores.append(ig)
    if rng.random() < 0.1:
        ignores.append(rng.choice(['l', 'a/l', 'l00']))      # look-alike prefixes
    ops = []
    for _ in range(rng.choice([1, 2, 3])):
        ops.append({'op': rng.choice(['verify', 'verify', 'verify-kg', 'update', 'create', 'unregistered', 'cli-verify', 'cli-update',
                                      'cli-verify-2', 'cli-update-2', 'verify-sub', 'verify-sub', 'unregistered-sub']),
                    'pick': rng.randrange(0, 100),
                    'xdev': rng.random() < 0.6})
    # the Manifest still records a FILE at the path where the other filesystem is now linked in (a recorded file
    # later replaced by a link to a directory elsewhere); used for one-file-system verification only
    file_entry_for_ext = ext and rng.random() < 0.4
    file_entry_in_hidden_ext = ext and rng.random() < 0.5
    # the IGNORE entries that lie below some directory are kept in a registered sub-Manifest of that directory instead
    # of the top-level Manifest
    sub_ign = rng.randrange(100) if rng.random() < 0.4 else None
    top_spelling = rng.choice([None, None, None, 'dot', 'dotdot', 'slashes'])
    # ... and that sub-Manifest FILE lives on another filesystem (bind mount, link to a file elsewhere) while its
    # directory does not
    sub_manifest_foreign = sub_ign is not None and rng.random() < 0.3
    # the root of the other filesystem carries the same inode number as the top directory of the tree
    ino_collision = bool(mounts.get('mnt1')) and rng.random() < 0.4
    return {'prop': ID, 'order_key': '%016x' % rng.getrandbits(64), 'tree': tree, 'mounts': mounts,
            'ignores': ignores, 'ops': ops, 'unreg': unreg, 'file_entry_for_ext': bool(file_entry_for_ext),
            'file_entry_in_hidden_ext': bool(file_entry_in_hidden_ext), 'sub_ign': sub_ign,
            'sub_manifest_foreign': bool(sub_manifest_foreign), 'ino_collision': ino_collision, 'top_spelling': top_spelling}


def dev_of(mounts, base, realpath, default):
    r = os.path.relpath(realpath, base)
    best, bl = default, -1
    for m, dev in mounts.items():
        if (r == m or r.startswith(m + '/')) and len(m) > bl:
            best, bl = dev, len(m)
    return best


def walk_graph(root, base, ignores, mounts, default_dev, top='Manifest'):
    """M-walk: DFS with an ancestor-identity stack."""
    res = {'files': {}, 'dirs': [], 'loops': [], 'file_loops': [], 'devs': {}, 'visits': 1, 'links': 0}
    rst = _o['os.stat'](root)
    rdev = dev_of(mounts, base, os.path.realpath(root), default_dev)
    res['devs'][''] = rdev
    stack = [('', [(rdev, rst.st_ino)])]
    while stack:
        d, anc = stack.pop()
        full = os.path.join(root, d) if d else root
        for n in sorted(_o['os.listdir'](full)):
            if n.startswith('.'):
                continue
            v = pjoin(d, n)
            if any(v == i for i in ignores):
                continue
            p = os.path.join(root, v)
            res['visits'] += 1
            try:
                st = _o['os.stat'](p)
            except FileNotFoundError:
                continue
            except OSError:
                res['file_loops'].append(v)
                continue
            real = os.path.realpath(p)
            dev = dev_of(mounts, base, real, default_dev)
            import stat as _st
            if _st.S_ISDIR(st.st_mode):
                if os.path.islink(p):
                    res['links'] += 1
                ident = (dev, st.st_ino)
                if ident in anc:
                    res['loops'].append(v)
                    continue
                res['dirs'].append(v)
                res['devs'][v] = dev
                stack.append((v, anc + [ident]))
            else:
                if v == top or n == 'Manifest':
                    continue
                res['files'][v] = real
                res['devs'][v] = dev
    return res


def execute(sc):
    violations = []
    zones = {}
    counters = {}
    outcome = []
    results = []
    nontrivial = False
    with World(sc, subdir='tree') as w:
        # tree paths are relative to the world base here
        for spec in sc.get('tree', []):
            w.put(spec, root=w.base)
        base = w.base
        root = w.root
        mounts = dict(sc.get('mounts', {}))
        default_dev = 1001
        ignores = list(sc.get('ignores', []))
        g_ign = walk_graph(root, base, ignores, mounts, default_dev)
        g_all = walk_graph(root, base, [], mounts, default_dev)
        g = g_ign
        # consistent top-level Manifest for the loop-pruned walk view
        ents = [{'tag': 'IGNORE', 'path': i} for i in ignores]
        for v, real in sorted(g['files'].items()):
            with _o['open'](real, 'rb') as f:
                data = f.read()
            ents.append({'tag': 'DATA', 'path': v, 'size': len(data), 'sums': G.digests(data, ['SHA256'])})
        manifest_text = G.dump(ents)
        subm = None
        sub_text = None
        if sc.get('sub_ign') is not None and not sc.get('unreg') and not g_ign['loops'] and \
                all(os.readlink(os.path.join(root, v_)).endswith('mnt1') for v_ in g_ign['dirs'] if os.path.islink(os.path.join(root, v_))):
            # (only where the sub-Manifest is reachable under one name: no followed link inside the tree)
            cands_s = set()
            for ig in ignores:
                parts = ig.split('/')
                for k_ in range(1, len(parts)):
                    d_ = '/'.join(parts[:k_])
                    if d_ in g_ign['dirs'] and os.path.realpath(os.path.join(root, d_)) == os.path.normpath(os.path.join(root, d_)) \
                            and not any(i_ == d_ or d_.startswith(i_ + '/') for i_ in ignores):
                        cands_s.add(d_)
            if cands_s:
                subm = sorted(cands_s)[sc['sub_ign'] % len(cands_s)]
                sents = [{'tag': 'IGNORE', 'path': os.path.relpath(i_, subm)} for i_ in ignores if i_.startswith(subm + '/')]
                sents += [e_ for e_ in ents if e_['tag'] == 'DATA' and e_['path'].startswith(subm + '/')]
                sents = [dict(e_, path=os.path.relpath(e_['path'], subm)) if e_['tag'] == 'DATA' else e_ for e_ in sents]
                sub_text = G.dump(sents)
                tents = [e_ for e_ in ents if not e_['path'].startswith(subm + '/')]
                tents.append({'tag': 'MANIFEST', 'path': subm + '/Manifest', 'size': len(sub_text.encode()),
                              'sums': G.digests(sub_text.encode(), ['SHA256'])})
                manifest_text = G.dump(tents)
                counters['ignores_kept_in_a_sub_manifest'] = 1
                if sc.get('sub_manifest_foreign'):
                    mounts['tree/' + subm + '/Manifest'] = 2004
                    counters['sub_manifest_file_on_another_device'] = 1
        top = os.path.join(root, 'Manifest')
        man_dev = dev_of(mounts, base, top, default_dev)
        # the same top-level Manifest under a spelling that is not in normal form (`gemato verify .`, a doubled slash,
        # a detour through '..'): library calls get it as given
        top_given = {'dot': os.path.join(root, '.', 'Manifest'), 'dotdot': os.path.join(root, '..', os.path.basename(root), 'Manifest'),
                     'slashes': root + '//Manifest'}.get(sc.get('top_spelling'), top)
        nontrivial = bool(g_all['links'] or mounts)
        seam = Seam(base, order_key=sc['order_key'], mounts=mounts, default_dev=default_dev, virtual_root=True,
                    ino_alias=({'mnt1': 'tree'} if sc.get('ino_collision') else None))
        if sc.get('ino_collision'):
            counters['foreign_root_with_the_inode_number_of_the_top_directory'] = 1
        for i, op in enumerate(sc.get('ops', [])):
            kind = op['op']
            xdev = op.get('xdev', True)
            g = g_all if kind == 'create' else g_ign     # a fresh Manifest has no IGNOREs
            subw = None
            if kind in ('verify-sub', 'unregistered-sub'):
                # the walk starts below the top directory: ancestors are counted from where it starts
                cands_ = [d_ for d_ in g['dirs'] if os.path.realpath(os.path.join(root, d_)) == os.path.normpath(os.path.join(root, d_))
                          and not any(d_ == i_ or d_.startswith(i_ + '/') or i_.startswith(d_ + '/') for i_ in ignores)]
                if not cands_:
                    zones['no-sub-directory-to-start-from'] = zones.get('no-sub-directory-to-start-from', 0) + 1
                    continue
                subw = cands_[op.get('pick', 0) % len(cands_)]
                g = walk_graph(os.path.join(root, subw), base, [], mounts, default_dev)
                g = dict(g, devs=dict((pjoin(subw, k_) if k_ else subw, v_) for k_, v_ in g['devs'].items()),
                         dirs=[pjoin(subw, k_) for k_ in g['dirs']], loops=[pjoin(subw, k_) for k_ in g['loops']])
                counters['walks_started_below_the_top'] = counters.get('walks_started_below_the_top', 0) + 1
            foreign = sorted(v for v, dv in g['devs'].items() if dv != man_dev)
            if kind in ('unregistered', 'unregistered-sub'):
                # the scan inspects directories only; it neither verifies nor records files
                foreign = [v for v in foreign if v == '' or v == subw or v in g['dirs']]
            if subm is not None and sc.get('sub_manifest_foreign') and \
                    kind in ('verify', 'verify-kg', 'cli-verify', 'cli-verify-2', 'update', 'cli-update', 'cli-update-2'):
                # the walk meets the registered sub-Manifest as a file of its directory
                foreign = foreign + [subm + '/Manifest']
            has_loop = bool(g['loops'])
            hidden_foreign = None
            # (re)write the Manifest: earlier update ops may have rewritten it
            for ud in sc.get('unreg', []):
                # present (and empty) for the operations that scan for unregistered Manifests, absent for verification
                # (where an unlisted file would simply be stray)
                if os.path.isdir(os.path.join(root, ud)):
                    up = os.path.join(root, ud, 'Manifest')
                    if kind in ('update', 'cli-update', 'cli-update-2', 'create', 'unregistered'):
                        with _o['open'](up, 'w') as f:
                            pass
                    elif os.path.lexists(up):
                        _o['os.unlink'](up)
            if subm is not None:
                sp_ = os.path.join(root, subm, 'Manifest')
                if kind == 'create':
                    if os.path.lexists(sp_):
                        _o['os.unlink'](sp_)
                else:
                    with _o['open'](sp_, 'w', encoding='utf8') as f:
                        f.write(sub_text)
            if kind == 'create':
                if os.path.lexists(top):
                    _o['os.unlink'](top)
            else:
                mt_ = manifest_text
                if sc.get('file_entry_for_ext') and kind in ('verify', 'verify-kg', 'cli-verify', 'cli-verify-2') and not xdev:
                    extl = sorted(v_ for v_ in g['dirs'] if os.path.islink(os.path.join(root, v_))
                                  and os.readlink(os.path.join(root, v_)).endswith('mnt1') and not v_.split('/')[-1].startswith('.'))
                    if extl:
                        mt_ = manifest_text + G.dump([{'tag': 'DATA', 'path': extl[0], 'size': 0, 'sums': {}}])
                        counters['file_entry_at_foreign_directory'] = counters.get('file_entry_at_foreign_directory', 0) + 1
                if sc.get('file_entry_in_hidden_ext') and kind in ('verify', 'verify-kg', 'cli-verify', 'cli-verify-2'):
                    # a listed file inside a directory the walk never enters (a dot-directory) that lies on the other
                    # filesystem: still a non-ignored file on a different device
                    hl = sorted(t_['p'][5:] for t_ in sc.get('tree', []) if t_.get('k') == 'symlink' and t_['t'].endswith('mnt1')
                                and os.path.basename(t_['p']).startswith('.') and not any(c.startswith('.') for c in t_['p'][5:].split('/')[:-1]))
                    hl = [h for h in hl if not any(h == i_ or h.startswith(i_ + '/') for i_ in ignores)
                          and os.path.dirname(h) in ([''] + g['dirs']) and os.path.isfile(os.path.join(root, h, 'm0'))]
                    if hl:
                        with _o['open'](os.path.join(root, hl[0], 'm0'), 'rb') as f:
                            d_ = f.read()
                        mt_ = mt_ + G.dump([{'tag': 'DATA', 'path': hl[0] + '/m0', 'size': len(d_), 'sums': G.digests(d_, ['SHA256'])}])
                        hidden_foreign = hl[0]
                        counters['listed_file_in_hidden_foreign_directory'] = counters.get('listed_file_in_hidden_foreign_directory', 0) + 1
                with _o['open'](top, 'w', encoding='utf8') as f:
                    f.write(mt_)
            walks = {'verify': 1, 'verify-sub': 1, 'unregistered-sub': 1, 'verify-kg': 1, 'cli-verify': 1, 'cli-verify-2': 2, 'unregistered': 1}.get(kind, 4)
            cap = 150 + 14 * walks * (g['visits'] + 2)
            kw = {} if xdev else {'allow_xdev': False}
            with seam:
                seam.begin_op(i, step_cap=cap)
                if kind == 'verify-sub':
                    r = call(lambda: ManifestRecursiveLoader(top_given, **kw).assert_directory_verifies(subw))
                elif kind == 'unregistered-sub':
                    r = call(lambda: ManifestRecursiveLoader(top_given, **kw).load_unregistered_manifests(subw) == [])
                elif kind == 'verify':
                    r = call(lambda: ManifestRecursiveLoader(top_given, **kw).assert_directory_verifies(''))
                elif kind == 'verify-kg':
                    r = call(lambda: ManifestRecursiveLoader(top_given, **kw).assert_directory_verifies('', fail_handler=lambda e: False))
                elif kind == 'update':
                    def upd():
                        m = ManifestRecursiveLoader(top_given, hashes=['SHA256'], **kw)
                        # (half of the updates are incremental ones with a last_mtime later than every file: nothing needs
                        # re-hashing, every object still has to pass the device and loop checks)
                        m.update_entries_for_directory('', **({'last_mtime': 2.0 ** 33} if op.get('pick', 0) % 2 else {}))
                        m.save_manifests()
                        return True
                    r = call(upd)
                elif kind == 'create':
                    def cre():
                        m = ManifestRecursiveLoader(top_given, hashes=['SHA256'], allow_create=True, **kw)
                        m.update_entries_for_directory('')
                        m.save_manifests()
                        return True
                    r = call(cre)
                elif kind == 'unregistered':
                    want_unreg = sorted(ud + '/Manifest' for ud in sc.get('unreg', []) if ud in g['dirs'])
                    r = call(lambda: sorted(ManifestRecursiveLoader(top_given, **kw).load_unregistered_manifests('')) == want_unreg)
                elif kind in ('cli-verify-2', 'cli-update-2'):
                    # several paths on one command line: a small clean tree first, the tree under test second
                    # (per-path handling must not lose the options after the first path)
                    t0 = os.path.join(base, '.tree0')     # a dot-directory: invisible to walks that reach the world base through a '..' link
                    seam._inside += 1
                    try:
                        os.makedirs(t0, exist_ok=True)
                        with _o['open'](os.path.join(t0, 'f'), 'w') as f:
                            f.write('clean')
                        with _o['open'](os.path.join(t0, 'Manifest'), 'w') as f:
                            f.write(G.dump([{'tag': 'DATA', 'path': 'f', 'size': 5, 'sums': G.digests(b'clean', ['SHA256'])}]))
                    finally:
                        seam._inside -= 1
                    if kind == 'cli-verify-2':
                        r = cli_as_call(run_cli(['verify'] + ([] if xdev else ['-x']) + [t0, root]))
                    else:
                        r = cli_as_call(run_cli(['update', '-H', 'SHA256'] + ([] if xdev else ['-x']) + [t0, root]))
                elif kind == 'cli-verify':
                    r = cli_as_call(run_cli(['verify'] + ([] if xdev else ['-x']) + [root]))
                else:
                    r = cli_as_call(run_cli(['update', '-H', 'SHA256'] + ([] if xdev else ['-x']) + [root]))
                seam.begin_op(i + 100, step_cap=None)
            results.append(r)
            what = '%s(xdev=%s)' % (kind, xdev)
            name = r[1] if r[0] != 'ok' else repr(r[1])
            name = str(name).replace(base, '<W>')
            outcome.append([kind, xdev, has_loop, bool(foreign), r[0], str(name)[:60]])
            counters['op.' + kind] = counters.get('op.' + kind, 0) + 1
            if r[0] == 'INTERNAL':
                continue
            if r[0] == 'STEP-LIMIT':
                violations.append(viol('walk.no-termination', '%s did not finish within %d seam calls (model predicts %d visits; loops at %r)' % (
                    what, cap, g['visits'], g['loops']), sig=kind))
                continue
            is_loop = (r[0] == 'GE' and r[1] == 'ManifestSymlinkLoop')
            is_xdev = (r[0] == 'GE' and r[1] == 'ManifestCrossDevice')
            expect_xdev = (not xdev) and (bool(foreign) or hidden_foreign is not None)
            if g['file_loops'] and r[0] == 'OS' and r[1] == 'ELOOP':
                zones['file-symlink-loop-oserror'] = zones.get('file-symlink-loop-oserror', 0) + 1
                continue
            if g['file_loops'] and kind in ('update', 'create', 'cli-update', 'cli-update-2') and r[0] == 'GE' and not is_loop and not is_xdev:
                zones['file-symlink-loop-invalid-path'] = zones.get('file-symlink-loop-invalid-path', 0) + 1
                continue
            if kind == 'verify-sub' and (has_loop or foreign) and r[0] == 'GE' and r[1] == 'ManifestMismatch':
                # a walk started below the top that follows a link upwards sees the upper tree under new names (stray
                # for the Manifest) before it closes the loop: whichever failure the walk order meets first
                zones['sub-walk:stray-before-structural'] = zones.get('sub-walk:stray-before-structural', 0) + 1
                continue
            if has_loop or expect_xdev:
                ok = (has_loop and is_loop) or (expect_xdev and is_xdev)
                if not ok:
                    clause = 'walk.loop-not-reported' if has_loop and not expect_xdev else \
                        'walk.xdev-not-reported' if expect_xdev and not has_loop else 'walk.structural-not-reported'
                    violations.append(viol(clause, '%s: model loops=%r foreign=%r but gemato %s' % (
                        what, g['loops'], foreign[:4], describe(r)), sig='%s:%s' % (kind, r[0])))
                counters['structural'] = counters.get('structural', 0) + 1
                continue
            # no loop, no boundary to report: links are followed, files treated like any others
            if is_loop:
                violations.append(viol('walk.false-loop', '%s: no link leads back to an ancestor, gemato %s' % (what, describe(r)), sig=kind))
                continue
            if is_xdev:
                violations.append(viol('walk.false-xdev', '%s: nothing foreign to report (xdev allowed=%s, foreign=%r), gemato %s' % (
                    what, xdev, foreign[:4], describe(r)), sig=kind))
                continue
            if r[0] != 'ok' or r[1] is not True:
                violations.append(viol('walk.followed-links-wrong', '%s: loop-free graph with consistent Manifest, gemato %s' % (what, describe(r)),
                                       sig='%s:%s' % (kind, r[0])))
                continue
            if kind in ('create', 'update', 'cli-update', 'cli-update-2'):
                # files behind followed links are recorded like any others
                with _o['open'](top, 'r', encoding='utf8') as f:
                    got = G.parse(f.read())
                paths = [e['path'] for e in got if e['tag'] == 'DATA']
                umf = []
                for ud in sc.get('unreg', []):
                    if ud in g['dirs']:
                        umf.append(ud + '/Manifest')
                        with _o['open'](os.path.join(root, ud, 'Manifest'), 'r', encoding='utf8') as f:
                            paths += [pjoin(ud, e['path']) for e in G.parse(f.read()) if e['tag'] == 'DATA']
                if subm is not None and kind != 'create':
                    with _o['open'](os.path.join(root, subm, 'Manifest'), 'r', encoding='utf8') as f:
                        paths += [pjoin(subm, e['path']) for e in G.parse(f.read()) if e['tag'] == 'DATA']
                paths = sorted(set(paths))
                want = sorted(g['files'])
                if umf:
                    counters['updates_with_unregistered_manifest'] = counters.get('updates_with_unregistered_manifest', 0) + 1
                if paths != want:
                    violations.append(viol('walk.recorded-set', '%s: recorded %r, reachable files %r' % (what, paths, want), sig=kind))
            counters['followed'] = counters.get('followed', 0) + 1
        violations += internal_violations(results)
    counters['graphs_with_loop'] = int(bool(g_all['loops']))
    counters['graphs_with_foreign_device'] = int(any(dv != man_dev for dv in g_all['devs'].values()))
    return mk_result([seam], violations, nontrivial, outcome=outcome, dontcare=zones, counters=counters,
                     ops=len(sc.get('ops', [])))
