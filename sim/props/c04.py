"""C04 Only the OpenPGP-signed content of a signed Manifest is ever used.

The signed Manifest is a line-oriented message from a signer to the loader
through an untrusted channel.  Channel faults: line loss, duplication, moves,
injection of every line class, truncation at any line, CR-LF, blanks, added
or removed dash escapes, injected armor headers, concatenated messages,
stripped final newline.  (a) Synthetic line sequences over the ten line
classes of the statement, loaded with a recording peer at the openpgp_env
interface (and with verification off).  (b) Manifests genuinely signed by the
real gpg, mutated, loaded with a recording proxy in front of the real
IsolatedGPGEnvironment; ground truth is the cleartext gpg itself prints.
"""
import io
import os

import gemato.manifest
from gemato.exceptions import OpenPGPVerificationFailure
from gemato.openpgp import IsolatedGPGEnvironment, OpenPGPSignatureData

from .. import gpgsim as GS
from .. import grammar as G
from ..common import call, mk_result, viol
from ..oracles import describe

ID = 'C04'
LEVEL = 'exploration'
NEEDS_GPG = True
RULE = ('each run = a line sequence (<= 40 lines) built from a well-formed cleartext-signed template or from scratch '
        'over the classes {signed-message header, signature header, signature end, other armor-like line, blank, armor '
        'header/base64 text, valid entry, dash-escaped entry, dash-escaped armor line, junk} with 0-3 channel faults, '
        'with/without final newline; synthetic runs use a recording peer (verify on and off), real runs use payloads '
        'signed by gpg and the real IsolatedGPGEnvironment behind a recording proxy; non-trivial = at least one armor '
        'line is present and a fault was applied; distinct = distinct (line-class sequence, outcome); coverage '
        'measure `states` = (loader state x line class) pairs reached according to the reference framing model')
PLAN = {'quick': {'n': 30000, 'budget_s': 90, 'block': 100, 'det': 3},
        'thorough': {'n': 1500000, 'budget_s': 2400, 'block': 500, 'det': 4}}
ASSUMPTIONS = ['armor lines with trailing whitespace, CR-LF line ends and a missing final newline after END PGP SIGNATURE are a don\'t-care zone for completeness (they may be rejected), never for soundness',
               'a second signed block after the first may be reported as unsigned data or as misplaced armor']
COMPONENTS_REAL = ['gpg 2.2.40 for signing payloads, for the ground-truth cleartext (--decrypt) and behind IsolatedGPGEnvironment in real runs']
COMPONENTS_STUB = ['openpgp_env.verify_file replaced by a recording peer in synthetic runs']

BS = '-----BEGIN PGP SIGNED MESSAGE-----'
BG = '-----BEGIN PGP SIGNATURE-----'
EG = '-----END PGP SIGNATURE-----'
CLASSES = {
    'BS': BS, 'BG': BG, 'EG': EG, 'ARMOR': '-----BEGIN PGP MESSAGE-----', 'BLANK': '',
    'HDR': 'Hash: SHA256', 'B64': 'iHUEARYIAB0WIQQsIA2++UcMmc0B1Cw3FF1jt8HZDgUCXlr=', 'ENTRY': 'DATA f%d 1 MD5 aa',
    'DASHENTRY': '- DATA g%d 2', 'DASHARMOR': '- -----BEGIN PGP SIGNATURE-----', 'JUNK': 'some junk line',
    'IGN': 'IGNORE d%d', 'DASHDASH': '- - DATA h%d 3',
}
STATES = ('DATA', 'PREAMBLE', 'SIGNED', 'SIGNATURE', 'POST')


def template(rng):
    body = []
    for i in range(rng.choice([0, 1, 2, 3, 5])):
        body.append(rng.choice(['ENTRY', 'ENTRY', 'DASHENTRY', 'IGN', 'BLANK', 'DASHARMOR']))
    hdrs = ['HDR'] * rng.choice([0, 1, 1, 2])
    return ['BS'] + hdrs + ['BLANK'] + body + ['BG', 'BLANK'] + ['B64'] * rng.choice([1, 2]) + ['EG']


def generate(rng, tier, idx):
    mode = 'real' if rng.random() < 0.12 else 'synthetic'
    if mode == 'real':
        payload = []
        for i in range(rng.choice([1, 2, 3, 6])):
            payload.append(rng.choice(['DATA file%d 3 SHA256 %064x' % (i, rng.getrandbits(60)),
                                       'IGNORE dir%d' % i, '-dash line is junk', 'DATA -dash%d 1' % i,
                                       'DATA sp\\x20ace%d 2 MD5 %032x' % (i, rng.getrandbits(60)),
                                       'TIMESTAMP 2020-03-01T00:00:00Z', '', 'DATA trailing%d 1   ' % i,
                                       'DATA ' + '\U0001F600' * 2000 + '%d 3 SHA256 %064x' % (i, rng.getrandbits(60)),
                                       '-----BEGIN PGP SIGNATURE-----', 'DIST d%d.tar 9 SHA512 ab' % i]))
        faults = []
        for _ in range(rng.choice([0, 0, 1, 1, 2, 3])):
            faults.append([rng.choice(['drop', 'dup', 'move', 'insert', 'cut', 'nofinal', 'crlf', 'lead-blank', 'trail-blank',
                                       'trail-entry', 'lead-entry', 'undash', 'adddash', 'inject-hdr', 'concat', 'trail-ws',
                                       'flip-body', 'swap-sig', 'sig-entry', 'long-line', 'long-line', 'long-blank', 'long-blank', 'trail-nul', 'lf-to-other', 'lf-to-other', 'dash5-split', 'dash5-split']), rng.randrange(0, 1000), rng.randrange(0, 1000)])
        if any('\U0001F600' in l for l in payload) and rng.random() < 0.6:
            # the line with multi-byte characters padded to just under the limit counted in characters
            faults.append(['long-line-mb', rng.randrange(0, 1000), rng.choice([6, 7])])
        return {'prop': ID, 'mode': 'real', 'order_key': '0', 'payload': payload, 'final_nl': rng.random() < 0.85,
                'faults': faults, 'not_dash_escaped': rng.random() < 0.15, 'verify': True,
                # history on one OpenPGP environment object: it has verified the genuine message before it is handed
                # the altered one (`gemato verify A B`, a long-running caller)
                'prime': rng.random() < 0.4, 'raw_byte': rng.randrange(1000) if rng.random() < 0.12 else None}
    if rng.random() < 0.75:
        seq = template(rng)
    else:
        seq = [rng.choice(list(CLASSES)) for _ in range(rng.randrange(0, 7))]
    nf = rng.choice([0, 0, 1, 1, 2, 3])
    for _ in range(nf):
        k = rng.choice(['drop', 'dup', 'move', 'insert', 'insert', 'cut', 'concat'])
        if k == 'drop' and seq:
            del seq[rng.randrange(len(seq))]
        elif k == 'dup' and seq:
            i = rng.randrange(len(seq))
            seq.insert(i, seq[i])
        elif k == 'move' and len(seq) > 1:
            x = seq.pop(rng.randrange(len(seq)))
            seq.insert(rng.randrange(len(seq) + 1), x)
        elif k == 'insert':
            seq.insert(rng.randrange(len(seq) + 1), rng.choice(list(CLASSES)))
        elif k == 'cut' and seq:
            seq = seq[:rng.randrange(len(seq))]
        elif k == 'concat':
            seq = seq + template(rng)
    variant = rng.choice(['plain'] * 6 + ['nofinal', 'crlf', 'trail-ws'])
    sc = {'prop': ID, 'mode': 'synthetic', 'order_key': '0', 'seq': seq[:40], 'variant': variant,
          'verify': rng.random() < 0.7, 'nfaults': nf}
    if rng.random() < 0.3:
        # history on one ManifestFile object: it has loaded (and had authenticated) a well-formed signed message before
        # this load - nothing of that may survive: neither entries nor the signed flag nor the signature data
        sc['prime_object'] = True
    return sc


# ------------------------------------------------------------------ M-clearsig

def armor_like(s):
    return s.startswith('-----') and s.rstrip().endswith('-----')


def classify(lines):
    """lines: list of (text without newline, had_newline).  Returns dict:
    kind: 'plain' | 'signed' | 'malformed'; strict: bool (exactly as gemato's
    reader requires); body: list of cleartext lines after dash-unescape;
    slice: (first, last) line indexes of the signed block; reason."""
    reached = set()
    st = 'DATA'
    first = last = None
    body = []
    pre_nonblank = False
    post_nonblank = False
    strict = True
    reason = None
    for i, (t, nl) in enumerate(lines):
        ts = t.rstrip()
        cls = ('BS' if ts == BS else 'BG' if ts == BG else 'EG' if ts == EG else 'ARMOR' if armor_like(t) else
               'BLANK' if not t.strip() else 'DASH' if t.startswith('- ') else 'TEXT')
        reached.add((st, cls))
        exact = (t == ts) and nl
        if st == 'DATA':
            if cls == 'BS':
                if not exact:
                    strict = False
                first = i
                st = 'PREAMBLE'
            elif cls in ('BG', 'EG', 'ARMOR'):
                return {'kind': 'malformed', 'reason': 'misplaced armor before any signed message', 'reached': reached, 'strict': True}
            elif cls != 'BLANK':
                pre_nonblank = True
                body.append(t)
        elif st == 'PREAMBLE':
            if cls == 'BLANK':
                st = 'SIGNED'
            elif armor_like(t) and False:
                pass
        elif st == 'SIGNED':
            if cls == 'BG':
                if not exact:
                    strict = False
                st = 'SIGNATURE'
            elif cls in ('BS', 'EG', 'ARMOR'):
                return {'kind': 'malformed', 'reason': 'armor line inside the signed text', 'reached': reached, 'strict': True}
            else:
                body.append(t[2:] if t.startswith('- ') else t)
        elif st == 'SIGNATURE':
            if cls == 'EG':
                if not exact:
                    strict = False
                last = i
                st = 'POST'
            elif cls in ('BS', 'BG', 'ARMOR'):
                return {'kind': 'malformed', 'reason': 'armor line inside the signature', 'reached': reached, 'strict': True}
        elif st == 'POST':
            if cls != 'BLANK':
                post_nonblank = True
                return {'kind': 'malformed', 'reason': 'content after the signed block',
                        'unsigned_after': cls in ('TEXT', 'DASH') and not pre_nonblank and canon(body) is not None and strict,
                        'reached': reached, 'strict': strict}
    if st == 'DATA':
        return {'kind': 'plain', 'body': body, 'reached': reached, 'strict': True}
    if st != 'POST':
        return {'kind': 'malformed', 'reason': 'truncated in state ' + st,
                'truncated': strict and not pre_nonblank and (st == 'PREAMBLE' or canon(body) is not None),
                'reached': reached, 'strict': strict}
    if pre_nonblank:
        return {'kind': 'malformed', 'reason': 'content before the signed block', 'unsigned_before': False, 'reached': reached,
                'strict': strict, 'pre': [b for b in body]}
    return {'kind': 'signed', 'body': body, 'slice': (first, last), 'reached': reached, 'strict': strict}


def parse_body(body):
    try:
        return [G.entry_line(e) if 'raw' not in e else e['raw'] for e in G.parse('\n'.join(body) + '\n')], None
    except Exception as e:
        return None, e


def entry_lines(m):
    out = []
    for e in m.entries:
        out.append(' '.join(e.to_list()))
    return out


def canon(lines):
    """entries as canonical line strings (M-grammar re-dump) for comparison"""
    try:
        return [G.entry_line(e) for e in G.parse('\n'.join(lines) + '\n')]
    except Exception:
        return None


class RecordingPeer:
    """stands at the openpgp_env interface; always 'authenticates'"""

    def __init__(self):
        self.texts = []

    def verify_file(self, f):
        self.texts.append(f.read())
        return OpenPGPSignatureData('A' * 40, None, None, 'B' * 40)


class RecordingProxy:
    def __init__(self, env):
        self.env = env
        self.texts = []

    def verify_file(self, f):
        t = f.read()
        self.texts.append(t)
        return self.env.verify_file(io.StringIO(t))


def judge(text, cl, r, m, peer_texts, verify, real_truth=None):
    """Common oracle.  cl = classify() result."""
    vs = []
    zone = None
    lines = text.split('\n')
    what = 'lines %r' % ([l[:30] for l in lines[:14]],)
    if r[0] == 'INTERNAL':
        vs.append(viol('frame.internal-error', '%s: %s' % (what, describe(r)), sig=r[1]))
        return vs, zone
    ok = r[0] == 'ok'
    if ok:
        got = canon(entry_lines(m))
        if cl['kind'] == 'malformed':
            vs.append(viol('frame.accepted-malformed', '%s: loaded although %s' % (what, cl['reason']), sig=cl['reason'].split(' in state')[0]))
            return vs, zone
        want = canon(cl['body'])
        if real_truth is not None:
            want = real_truth
        if want is None:
            vs.append(viol('frame.accepted-unparseable', '%s: loaded, but the cleartext does not parse as entries' % what, sig='body'))
        elif got != want:
            vs.append(viol('frame.entries-differ', '%s: entries %r, cleartext entries %r' % (what, got, want), sig='entries'))
        if cl['kind'] == 'signed':
            a, b = cl['slice']
            rawlines = text.split('\n')
            sl = '\n'.join(rawlines[a:b + 1]) + ('\n' if b + 1 < len(rawlines) else '')
            if verify:
                if len(peer_texts) != 1:
                    vs.append(viol('frame.verify-calls', '%s: verification called %d times for a signed Manifest' % (what, len(peer_texts)), sig=str(len(peer_texts))))
                elif peer_texts[0] != sl:
                    vs.append(viol('frame.text-handed-to-verification', '%s: handed %r, signed block is %r' % (what, peer_texts[0][:200], sl[:200]), sig='slice'))
                if m.openpgp_signed is not True:
                    vs.append(viol('frame.not-marked-signed', '%s: verified but openpgp_signed=%r' % (what, m.openpgp_signed), sig='flag'))
            else:
                if peer_texts:
                    vs.append(viol('frame.verify-calls', '%s: verification disabled but called' % what, sig='off'))
                if m.openpgp_signed:
                    vs.append(viol('frame.marked-signed-unverified', '%s: openpgp_signed without verification' % what, sig='flag'))
        else:
            if peer_texts:
                vs.append(viol('frame.verify-calls', '%s: plain Manifest but verification called' % what, sig='plain'))
            if m.openpgp_signed:
                vs.append(viol('frame.marked-signed-unverified', '%s: plain Manifest reported as signed' % what, sig='flag'))
    else:
        if r[0] != 'GE':
            vs.append(viol('frame.wrong-failure', '%s: %s' % (what, describe(r)), sig='%s:%s' % (r[0], r[1])))
            return vs, zone
        if verify and any(len(l.encode('utf8', 'replace')) > 16000 or '\x00' in l for l in lines):
            # a line beyond the peer's own line-length limit is not covered by the signature whatever follows it:
            # refusing the Manifest is right, with whichever of the library's exceptions comes first
            zone = 'line-beyond-peer-line-limit-or-with-nul-rejected'
            if m.openpgp_signed:
                vs.append(viol('frame.marked-signed-unverified', '%s: load failed (%s) but openpgp_signed=%r' % (what, r[1], m.openpgp_signed), sig='flag'))
            return vs, zone
        if cl['kind'] in ('signed', 'plain'):
            body_ok = canon(cl['body']) is not None
            if not body_ok:
                if r[1] not in ('ManifestSyntaxError',):
                    vs.append(viol('frame.wrong-failure', '%s: cleartext does not parse, expected ManifestSyntaxError, got %s' % (what, r[1]), sig=r[1]))
            elif cl['strict'] and real_truth is None and r[1] in ('ManifestSyntaxError', 'ManifestUnsignedData'):
                vs.append(viol('frame.rejected-wellformed', '%s: well-formed but %s' % (what, describe(r)), sig=r[1]))
            elif not cl['strict']:
                zone = 'lenient-armor-variant-rejected'
        else:
            if cl.get('unsigned_before') and cl['strict'] and canon(cl.get('pre', [])) is not None and r[1] != 'ManifestUnsignedData':
                # valid entries before the signed block
                if canon(cl.get('pre', [])):
                    vs.append(viol('frame.wrong-failure', '%s: entries before the signed block, expected ManifestUnsignedData, got %s' % (what, r[1]), sig='before:' + r[1]))
            if cl.get('unsigned_after') and r[1] not in ('ManifestUnsignedData',):
                vs.append(viol('frame.wrong-failure', '%s: non-armor content after the signed block, expected ManifestUnsignedData, got %s' % (what, r[1]), sig='after:' + r[1]))
            if cl.get('truncated') and r[1] != 'ManifestSyntaxError':
                vs.append(viol('frame.wrong-failure', '%s: truncated armor, expected ManifestSyntaxError, got %s' % (what, r[1]), sig='trunc:' + r[1]))
        if m.openpgp_signed:
            vs.append(viol('frame.marked-signed-unverified', '%s: load failed (%s) but openpgp_signed=%r' % (what, r[1], m.openpgp_signed), sig='flag'))
    return vs, zone


def build_text(seq, variant):
    out = []
    n = 0
    for c in seq:
        t = CLASSES[c]
        if '%d' in t:
            n += 1
            t = t % n
        out.append(t)
    nl = '\r\n' if variant == 'crlf' else '\n'
    if variant == 'trail-ws':
        out = [l + ' ' if armor_like(l) else l for l in out]
    text = nl.join(out)
    if out and variant != 'nofinal':
        text += nl
    return text


def split_lines(text):
    raw = text.split('\n')
    lines = []
    for i, t in enumerate(raw):
        if i == len(raw) - 1:
            if t == '':
                break
            lines.append((t, False))
        else:
            lines.append((t, True))
    return lines


def exec_synth(sc):
    text = build_text(sc['seq'], sc.get('variant', 'plain'))
    lines = split_lines(text)
    cl = classify(lines)
    peer = RecordingPeer()
    m = gemato.manifest.ManifestFile()
    verify = sc.get('verify', True)
    primed = False
    if sc.get('prime_object'):
        r0 = call(lambda: m.load(io.StringIO(build_text(['BS', 'HDR', 'BLANK', 'IGN', 'ENTRY', 'BG', 'BLANK', 'B64', 'EG'], 'plain')),
                                 verify_openpgp=True, openpgp_env=RecordingPeer()))
        primed = r0[0] == 'ok' and m.openpgp_signed is True
    r = call(lambda: m.load(io.StringIO(text), verify_openpgp=verify, openpgp_env=peer))
    vs, zone = judge(text, cl, r, m, peer.texts, verify)
    if primed and not m.openpgp_signed and getattr(m, 'openpgp_signature', None) is not None:
        vs.append(viol('frame.stale-signature-data', 'an object that had loaded a signed message before reports openpgp_signed=%r but still carries '
                       'signature data after loading %r' % (m.openpgp_signed, text[:120]), sig='sigdata'))
    return text, cl, r, vs, zone


def apply_fault(lines, f, sc):
    k, a, b = f
    n = len(lines)
    if n == 0:
        return lines
    i = a % n
    if k == 'drop':
        del lines[i]
    elif k == 'dup':
        lines.insert(i, lines[i])
    elif k == 'move':
        x = lines.pop(i)
        lines.insert(b % (len(lines) + 1), x)
    elif k == 'insert':
        lines.insert(i, ['DATA injected 1', '', 'Hash: SHA1', '- DATA dashed 2', '-----BEGIN PGP SIGNATURE-----', BS, EG, 'junk'][b % 8])
    elif k == 'cut':
        del lines[i:]
    elif k in ('long-line', 'long-line-mb'):
        # a signed line padded beyond the peer's own line-length limit (gpg reads text lines in ~20000-byte pieces and
        # does not hash trailing blanks), followed by tokens the signer never saw
        body = [j for j, l in enumerate(lines) if l.startswith(('DATA ', 'IGNORE ', 'DIST ', '- DATA', 'TIMESTAMP '))]
        if k == 'long-line-mb':
            body = [j for j in body if any(ord(ch_) > 127 for ch_ in lines[j])]
        if body:
            j = body[a % len(body)]
            pad = (19990, 19996, 20000, 20100, 40000, 65536, -16000, -16300)[b % 8]
            if pad < 0:
                # fill up to just under 16384 CHARACTERS: with multi-byte characters in the line that is far more bytes
                pad = max(0, -pad - len(lines[j]) - 72)
            lines[j] = lines[j] + ' ' * pad + (' SHA256 ' + 'e' * 64 if lines[j].lstrip('- ').startswith(('DATA', 'DIST')) else ' extra-token')
    elif k == 'long-blank':
        # an empty line of the signed text (or the one that ends the armor headers) replaced by blanks up to the peer's
        # line limit followed by tokens: the peer sees an empty line
        try:
            first_blank = lines.index('')
        except ValueError:
            first_blank = None
        blanks = [j for j, l in enumerate(lines) if l == '' and 0 < j < len(lines) - 1]
        if blanks:
            j = blanks[a % len(blanks)]
            pad = (19998, 20000, 20100, 40000)[b % 4]
            lines[j] = ' ' * pad + ('DATA evil.txt 4 SHA256 ' + 'e' * 64 if b % 3 else 'X-Header: v')
    elif k == 'lf-to-other':
        # the line feed between two signed lines replaced by a character that some line splitters treat as a line end
        # and the entry parser as a blank
        body = [j for j, l in enumerate(lines[:-1]) if l.startswith(('DATA ', 'IGNORE ', 'DIST ', 'TIMESTAMP ')) and
                lines[j + 1].startswith(('DATA ', 'IGNORE ', 'DIST ', 'TIMESTAMP '))]
        if body:
            j = body[a % len(body)]
            ch = ('\x0c', '\x0b', '\x1c', '\x1d', '\x1e', '\x85', '\u2028', '\u2029')[b % 8]
            lines[j] = lines[j] + ch + lines[j + 1]
            del lines[j + 1]
    elif k == 'dash5-split':
        # gpg ends the cleartext at ANY line that starts with five dashes, reads what follows as armor headers up to an
        # empty line, skips a packet of unknown type and accepts the real signature block after it: everything between
        # is unhashed
        try:
            j = lines.index(BG)
        except ValueError:
            j = None
        if j is not None:
            junk = ('-----XXXXXXXXXXXXXXX', '-----FOO', '-----BEGIN', '-----END PGP')[a % 4]
            hdr = ('DATA evil.sh 5 SHA512 : SHA512 ' + 'e' * 128, 'IGNORE : everything', 'DATA evil 1 MD5 : MD5 ' + 'e' * 32)[b % 3]
            lines[j:j] = [junk, hdr, '', '4AET', '=+2P8']
    elif k == 'trail-nul':
        body = [j for j, l in enumerate(lines) if l.startswith(('DATA ', 'IGNORE ', 'DIST '))]
        if body:
            j = body[a % len(body)]
            # (gpg leaves the whole trailing run of blanks, tabs, CRs and NULs out of the hash, in any mixture)
            lines[j] = lines[j] + '\x00' * (1 + b % 3) + ('', ' ', '\t', ' \x00\t ', '\r')[(b // 3) % 5]
    elif k == 'lead-blank':
        lines.insert(0, '')
    elif k == 'trail-blank':
        lines.append('')
    elif k == 'trail-entry':
        lines.append('DATA appended-after-signature 1')
    elif k == 'lead-entry':
        lines.insert(0, 'DATA prepended-before-signature 1')
    elif k == 'undash':
        for j, l in enumerate(lines):
            if l.startswith('- '):
                lines[j] = l[2:]
                break
    elif k == 'adddash':
        lines[i] = '- ' + lines[i]
    elif k == 'inject-hdr':
        lines.insert(1, 'Comment: DATA smuggled 1')
    elif k == 'concat':
        lines.extend(list(lines))
    elif k == 'trail-ws':
        lines[i] = lines[i] + ' '
    elif k == 'flip-body':
        l = lines[i]
        if l and not armor_like(l):
            j = b % len(l)
            lines[i] = l[:j] + ('x' if l[j] != 'x' else 'y') + l[j + 1:]
    elif k == 'swap-sig':
        if n > 2:
            lines[i], lines[(i + 1) % n] = lines[(i + 1) % n], lines[i]
    elif k == 'sig-entry':
        for j, l in enumerate(lines):
            if l == BG:
                lines.insert(j + 2, 'DATA inside-signature-block 1')
                break
    return lines


def exec_real(sc):
    payload = '\n'.join(sc['payload'])
    if sc.get('final_nl', True):
        payload += '\n'
    extra = ['--not-dash-escaped'] if sc.get('not_dash_escaped') else []
    signed = GS.clearsign(payload, key='signer', extra=extra)
    lines = signed.split('\n')
    if lines and lines[-1] == '':
        lines.pop()
    variant_nl = '\n'
    final = True
    for f in sc.get('faults', []):
        if f[0] == 'nofinal':
            final = False
        elif f[0] == 'crlf':
            variant_nl = '\r\n'
        else:
            lines = apply_fault(lines, f, sc)
    text = variant_nl.join(lines) + (variant_nl if (final and lines) else '')
    cl = classify(split_lines(text))
    env = IsolatedGPGEnvironment()
    try:
        env.import_key(io.BytesIO(GS.keydata('signer.pub.asc')))
        proxy = RecordingProxy(env)
        if sc.get('prime'):
            m0 = gemato.manifest.ManifestFile()
            call(lambda: m0.load(io.StringIO(signed), verify_openpgp=True, openpgp_env=env))
        m = gemato.manifest.ManifestFile()
        if sc.get('raw_byte') is not None:
            # the message comes from a FILE, one byte that is not UTF-8 inserted into a signed entry: whatever view of it
            # gemato parses, the peer must be handed the same bytes (the usual answer is to refuse the file)
            import tempfile
            from gemato.compression import open_potentially_compressed_path
            from ..world import scratch_base
            data = text.encode('utf8')
            body_ = [k_ for k_, l_ in enumerate(data.split(b'\n')) if l_.startswith((b'DATA ', b'IGNORE ', b'DIST '))]
            if body_:
                ls_ = data.split(b'\n')
                k_ = body_[sc['raw_byte'] % len(body_)]
                sp_ = ls_[k_].split(b' ')
                sp_[1] = sp_[1] + bytes([0xff, 0xfe, 0xc3, 0x80][sc['raw_byte'] % 4:][:1])
                ls_[k_] = b' '.join(sp_)
                data = b'\n'.join(ls_)
            fd_, tmp_ = tempfile.mkstemp(prefix='vsim.c04.', dir=scratch_base())
            os.write(fd_, data)
            os.close(fd_)
            try:
                def load_file():
                    with open_potentially_compressed_path(tmp_, 'r', encoding='utf8') as f_:
                        return m.load(f_, verify_openpgp=True, openpgp_env=proxy)
                r = call(load_file)
            finally:
                os.unlink(tmp_)
            if r[0] in ('DECODE', 'CODEC'):
                env.close()
                return text, cl, ('GE', 'refused-non-utf8', None), [], 'bytes-that-are-not-utf8-refused'
            # a Manifest FILE is read in text mode with universal newlines: what the loader (and through it the peer) sees
            # of a CR-LF file is its LF form
            text = data.decode('utf8', 'replace').replace('\r\n', '\n').replace('\r', '\n')
            cl = classify(split_lines(text))
        else:
            r = call(lambda: m.load(io.StringIO(text), verify_openpgp=True, openpgp_env=proxy))
    finally:
        env.close()
    truth = None
    if r[0] == 'ok' and proxy.texts:
        # what gpg itself authenticated for the text it was handed
        clear, good = GS.gpg_cleartext(proxy.texts[0])
        if not good or clear is None:
            vs = [viol('frame.accepted-unauthenticated', 'load succeeded but gpg does not authenticate the handed text %r' % proxy.texts[0][:200], sig='gpg')]
            return text, cl, r, vs, None
        truth = canon([l.rstrip() for l in clear.split('\n')])
    vs, zone = judge(text, cl, r, m, proxy.texts, True, real_truth=truth)
    if r[0] == 'ok' and cl['kind'] == 'signed':
        # entries must also be exactly the harness' view of the received cleartext, modulo trailing blanks
        pass
    return text, cl, r, vs, zone


def execute(sc):
    if sc.get('mode') == 'real':
        text, cl, r, vs, zone = exec_real(sc)
    else:
        text, cl, r, vs, zone = exec_synth(sc)
    zones = {zone: 1} if zone else {}
    states = ['%s/%s' % p for p in cl.get('reached', ())]
    outcome = [sc.get('mode'), cl['kind'], cl.get('reason'), r[0], r[1] if r[0] != 'ok' else 'ok']
    armor = any(l.startswith('-----') for l in text.split('\n'))
    nontrivial = armor and (sc.get('nfaults', 0) > 0 or bool(sc.get('faults')) or sc.get('variant', 'plain') != 'plain' or cl['kind'] != 'signed')
    counters = {'mode.' + sc.get('mode', '?'): 1, 'model.' + cl['kind']: 1, 'load.' + ('ok' if r[0] == 'ok' else str(r[1])): 1}
    res = mk_result([], vs, nontrivial, outcome=outcome, dontcare=zones, counters=counters, ops=1, states=states,
                    extra_digest=text)
    ff = {}
    for f in sc.get('faults', []):
        ff['channel.' + f[0]] = ff.get('channel.' + f[0], 0) + 1
    if sc.get('nfaults'):
        ff['channel.synthetic-line-faults'] = sc['nfaults']
    if sc.get('variant', 'plain') != 'plain':
        ff['channel.' + sc['variant']] = 1
    res['faults_fired'] = ff
    return res
