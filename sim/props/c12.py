"""C12 Update is idempotent and, with sorting, canonical.

Idempotence: after any successful update of a history-machine world the same
update is run again; the seam's write-event log of the second run must be
empty and every Manifest must keep bytes and (simulated) mtime.  Canonical
form: a twin world with identical content but another schedule - a different
keyed permutation of every directory listing and permuted entries inside each
pre-existing Manifest - must end with byte-identical Manifests.
"""
import copy
import os
import hashlib

from .. import gen_update as GU
from ..common import mk_result, viol
from ..update_engine import run_history, is_manifest_path

ID = 'C12'
LEVEL = 'exploration'
FAMILIES = ('idem', 'canon')
NO_SHRINK = ('hashes',)
RULE = ('each run = update history (as C03) followed, after every successful update, by the same update again '
        '(write-event log at the seam must be empty); half of the runs are canonical-form twins: sort on, one '
        'Manifest per directory, no duplicate entries, executed twice with different keyed permutations of all '
        'directory listings and of the entries in the pre-existing Manifests, final Manifest bytes compared; '
        'non-trivial = at least one idempotence check or twin comparison happened; distinct = distinct seam '
        'event-log digest')
PLAN = {'quick': {'n': 6000, 'budget_s': 90, 'block': 25},
        'thorough': {'n': 300000, 'budget_s': 2400, 'block': 150}}
ASSUMPTIONS = ['write events are observed at the seam (open for writing, unlink, rename), so the check is independent of the real clock',
               'canonical twins exclude duplicate entries (which duplicate is kept legitimately depends on entry order) and several Manifests per directory (outside the statement)']


def generate(rng, tier, idx):
    canonical = rng.random() < 0.5
    if canonical:
        sc = GU.gen_history(rng, {'p_multi': 0.0, 'allow_sub': False, 'tree': {'p_dup': 0.0, 'p_multi': 0.0}})
        for r in sc['rounds']:
            u = r['update']
            u['api'] = 'lib'
            u['sort'] = True
            u.pop('path', None)
            u.pop('timestamp', None)
        # the last update rewrites every Manifest, so that no Manifest keeps
        # (and no parent entry reflects) the entry order of the prior state
        if sc['rounds']:
            sc['rounds'][-1]['update']['force'] = True
        if rng.random() < 0.3:
            # one file listed twice in one Manifest with complementary hash sets, the update asking for exactly their
            # union (so the merged entry is kept as it is, not re-hashed): the merge order follows the entry order
            cands = [(m, e) for m in sc['manifests'] for e in m['entries']
                     if e.get('tag') in ('DATA', 'MISC', 'EBUILD') and len(e.get('hashes', [])) >= 2 and 'override' not in e]
            if cands:
                m, e = rng.choice(cands)
                hs = list(e['hashes'])
                rng.shuffle(hs)
                k = rng.randrange(1, len(hs))
                e1 = dict(e, hashes=sorted(hs[:k]))
                e2 = dict(e, hashes=sorted(hs[k:]))
                i = m['entries'].index(e)
                m['entries'] = m['entries'][:i] + [e1] + m['entries'][i + 1:] + [e2]
                for r in sc['rounds']:
                    r['update']['hashes'] = sorted(hs)
        if rng.random() < 0.25:
            # names that differ only in case (one directory, one tag): their relative order must still be fixed
            dirs_ = sorted(set(os.path.dirname(t['p']) for t in sc['tree'] if t.get('k', 'file') == 'file')) or ['']
            d_ = rng.choice(dirs_)
            for nm in rng.choice([('README', 'readme'), ('Notes.txt', 'notes.txt', 'NOTES.TXT'), ('a.DAT', 'A.dat')]):
                p_ = (d_ + '/' if d_ else '') + nm
                if not any(t['p'] == p_ for t in sc['tree']):
                    sc['tree'] = sc['tree'] + [{'p': p_, 'k': 'file', 'c': 'case ' + nm}]
        sc['canonical'] = '%016x' % rng.getrandbits(64)
    else:
        sc = GU.gen_history(rng)
        if rng.random() < 0.25:
            # fault: one removal of a superseded Manifest file (after a re-compression) fails.  The update may refuse; if it
            # reports success, the tree it leaves must still be a fixed point of update
            sc['unlink_fault'] = {'pick': rng.getrandbits(30), 'errno': rng.choice(['EPERM', 'EBUSY', 'EIO', 'EACCES'])}
            for r in sc['rounds']:
                if 'watermark' not in r['update'] and 'wm_of' not in r['update'] and not r['update'].get('reuse') and rng.random() < 0.6:
                    r['update']['watermark'] = rng.choice([0, 0, 100000])
    sc['prop'] = ID
    return sc


def _perm(lst, key):
    return sorted(lst, key=lambda e: hashlib.sha256((key + repr(sorted(e.items()))).encode('utf8', 'surrogateescape')).digest())


def execute(sc):
    faults = None
    if sc.get('unlink_fault'):
        h0 = run_history(copy.deepcopy(sc), want_idempotence=True)
        # (only unlinks issued by the rounds' own updates, not by the engine's second, idempotence-probing update)
        un = [n for (n, kind, rel, outcome) in h0['seams'][0].events if kind == 'unlink' and any(a_ < n <= b_ for a_, b_ in h0.get('update_ops', []))]
        if un:
            faults = [{'at': un[sc['unlink_fault']['pick'] % len(un)], 'errno': sc['unlink_fault']['errno']}]
    h = run_history(sc, want_idempotence=True, faults=faults)
    if faults and sum(f_.get('_fired', 0) for f_ in h['seams'][0].faults):
        h['counters']['histories_with_a_failing_unlink'] = 1
    vs = [v for v in h['violations'] if v['clause'].split('.')[0] in FAMILIES]
    c = dict(h['counters'])
    seams = list(h['seams'])
    twins = 0
    if sc.get('canonical') and h['results'] and all(r[0] == 'ok' for r in h['results']):
        sc2 = copy.deepcopy(sc)
        sc2['order_key'] = sc['canonical']
        sc2['clock_offset_s'] = 86400 * 3 + 17      # the twin also runs at another (simulated) time of day
        for m in sc2.get('manifests', []):
            m['entries'] = _perm(m.get('entries', []), sc['canonical'])
        h2 = run_history(sc2, want_idempotence=False)
        seams += h2['seams']
        if all(r[0] == 'ok' for r in h2['results']):
            # "the bytes of every WRITTEN Manifest": compare what both twins wrote
            wr = set(h['written']) & set(h2['written'])
            a = dict((k, v) for k, v in h['final'].items() if is_manifest_path(k) and k in wr)
            b = dict((k, v) for k, v in h2['final'].items() if is_manifest_path(k) and k in wr)
            twins = 1 if wr else 0
            if a != b:
                diff = sorted(k for k in set(a) | set(b) if a.get(k) != b.get(k))
                k0 = diff[0]
                vs.append(viol('canon.bytes-differ', 'twin schedules (directory order, prior entry order) end with different Manifests: %r; e.g. %s: %r vs %r' % (
                    diff[:4], k0, (a.get(k0) or (None, b''))[1][:300], (b.get(k0) or (None, b''))[1][:300]), sig='bytes'))
    c['canonical_twins_compared'] = twins
    nontrivial = c.get('idempotence_checked', 0) > 0 or twins
    return mk_result(seams, vs, nontrivial, outcome=h['outcome'], dontcare=h['zones'], counters=c, ops=len(h['results']))
