"""C11 Incremental update equals full update.

Two replicas A (always `update --incremental`) and B (always full `update`)
of the same generated tree, driven through the CLI under the seam with a
simulated clock (gemato.cli's datetime is replaced by a shim), explicitly
controlled mtimes placed around A's previous TIMESTAMP, a local timezone per
run (clock skew between the UTC TIMESTAMP and its local-time reading), and an
interleaving fault: a concurrent writer that modifies a file right after the
running update has hashed it.
"""
import datetime
import os

import gemato.cli

from .. import gen_tree as GT
from .. import grammar as G
from ..common import run_cli, mk_result, viol, cli_as_call
from ..oracles import describe
from ..seam import Seam, Clock, make_datetime_shim, orig as _o
from ..world import World, content_bytes

ID = 'C11'
LEVEL = 'exploration'
RULE = ('each run = generated tree with sub-Manifests, replicated twice; up to 6 rounds of file operations (add, '
        'delete, modify-same-size, modify-other-size) with mtimes placed older than / equal to / within the same '
        'second as / newer than replica A\'s previous TIMESTAMP (same-size modifications only later than it, as '
        'the statement\'s premise requires), a timezone (UTC, east, west, DST zones) and simulated clock steps from '
        'microseconds to days, forwards and (clock fault) backwards past the previous TIMESTAMP; A runs `update --incremental`, B runs `update`; optionally a concurrent writer '
        'modifies one file right after A\'s running update closed it; non-trivial = at least one round modified '
        'a file; distinct = distinct seam event-log digest')
PLAN = {'quick': {'n': 4000, 'budget_s': 90, 'block': 15},
        'thorough': {'n': 200000, 'budget_s': 2400, 'block': 100}}
ASSUMPTIONS = ['file mtimes are set explicitly (os.utime) from the simulated clock; the kernel only stores them',
               'TIMESTAMP lines are excluded from the replica comparison']
COMPONENTS_STUB = ['datetime.utcnow inside gemato.cli (shim reading the simulated clock)', 'local timezone (TZ + tzset per CLI call)']

TZS = ['UTC0', 'UTC0', 'EST5', 'PST8PDT,M3.2.0,M11.1.0', 'CET-1CEST,M3.5.0,M10.5.0/3', 'IST-5:30',
       'NZST-12NZDT,M9.5.0,M4.1.0/3', 'HST10', '<+14>-14', '<-11>11']
EPOCHS = [1_600_000_000, 1_615_703_400, 1_636_263_000, 1_616_891_400, 1_609_459_100, 1_700_000_000]


def generate(rng, tier, idx):
    g = GT.gen_tree(rng, {'top': 'Manifest', 'p_conflict': 0.0, 'p_dup': 0.0, 'p_multi': 0.0, 'symlinks': False,
                          'hostile': rng.random() < 0.3, 'ignores': rng.random() < 0.3})
    info = g['info']
    files = [f for f in info['need']]
    dirs = [d for d in info['dirs'] if not any(c.startswith('.') for c in d.split('/'))]
    rounds = []
    live = list(files)
    n_rounds = rng.choice([1, 2, 2, 3, 4, 6])
    inter_round = rng.randrange(n_rounds) if rng.random() < 0.35 and n_rounds > 1 else None
    for ri in range(n_rounds):
        ops = []
        for _ in range(rng.choice([0, 1, 1, 2, 3])):
            k = rng.choice(['add', 'delete', 'same', 'same', 'same', 'other', 'other'])
            if rng.random() < 0.08:
                # a whole directory arrives with its own, consistent Manifest (unpacked, rsynced or moved in: every
                # mtime may well be older than the previous TIMESTAMP)
                d = rng.choice(dirs)
                nd = (d + '/' if d else '') + 'pkg%d' % rng.randrange(100)
                if any(x == nd or x.startswith(nd + '/') for x in live):
                    continue
                fs = ['data%d' % j for j in range(rng.choice([1, 1, 2]))]
                live.extend(nd + '/' + f for f in fs)
                ops.append({'k': 'adddir', 'p': nd, 'files': {f: GT.rand_content(rng) for f in fs},
                            'mt': [rng.choice(['older', 'older', 'equal', 'nss', 'newer']), rng.choice([1, 2, 600, 86400])]})
                continue
            if k == 'add' or not live:
                d = rng.choice(dirs)
                p = (d + '/' if d else '') + 'n%d' % rng.randrange(100)
                if p in live:
                    continue
                live.append(p)
                ops.append({'k': 'add', 'p': p, 'c': GT.rand_content(rng),
                            'mt': [rng.choice(['older', 'equal', 'nss', 'newer']), rng.choice([1, 2, 600, 86400])]})
            elif k == 'delete':
                p = rng.choice(live)
                live.remove(p)
                ops.append({'k': 'delete', 'p': p})
            elif k == 'same':
                ops.append({'k': 'same', 'p': rng.choice(live), 'salt': rng.randrange(1, 255),
                            'mt': [rng.choice(['nss', 'newer', 'newer']), rng.choice([1, 2, 600, 7200, 86400])]})
            else:
                ops.append({'k': 'other', 'p': rng.choice(live), 'c': GT.rand_content(rng) + 'Z' * rng.randrange(1, 4),
                            'mt': [rng.choice(['older', 'equal', 'nss', 'newer']), rng.choice([1, 2, 600, 86400])]})
        rnd = {'ops': ops, 'advance_ns': rng.choice([1_000, 900_000_000, 1_000_000_000, 5_000_000_000,
                                                     3_600_000_000_000, 86_400_000_000_000])}
        if rng.random() < 0.3:
            rnd['explicit_t'] = True       # --timestamp given explicitly along with --incremental
        if rng.random() < 0.12:
            # clock fault: the wall clock is stepped BACK (NTP correction, Manifest produced on a host whose clock runs
            # ahead): the previous TIMESTAMP then lies in the future of the running update
            rnd['advance_ns'] = -rng.choice([2_000_000_000, 3_600_000_000_000, 86_400_000_000_000, 7 * 86_400_000_000_000])
        if inter_round == ri and ri < n_rounds - 1 and live:
            rnd['interleave'] = rng.choice(live)
        elif ri < n_rounds - 1 and live and rng.random() < 0.12:
            # schedule fault: a file (preferably one modified in this round) is listed by the directory walk but gone when
            # the update opens it, and is back - mtime preserved - right after the run (an editor's rename-and-replace)
            same = [o['p'] for o in ops if o['k'] == 'same' and o['p'] in live]
            rnd['vanish'] = rng.choice(same) if same else rng.choice(live)
        elif rng.random() < 0.2:
            # a second, unrelated tree follows on the same command line; its TIMESTAMP lies far in the future - each tree is
            # scanned against its OWN previous TIMESTAMP
            rnd['second_tree'] = True
        elif ri < n_rounds - 1 and rng.random() < 0.15:
            # an object that no update can record (named pipe, a name that is not valid UTF-8) lies in a visible directory
            # during this round's updates and is gone afterwards: both updates refuse; the modifications of this round are
            # then owed to the NEXT update, incremental or not
            rnd['obstacle'] = {'d': rng.choice(dirs), 'k': rng.choice(['fifo', 'fifo', 'badname'])}
        rounds.append(rnd)
    opts = {'hashes': rng.choice([['SHA256'], ['MD5', 'SHA1'], ['BLAKE2B', 'SHA512']])}
    if rng.random() < 0.3:
        opts['watermark'] = rng.choice([0, 100, 100000])
    return {'prop': ID, 'order_key': '%016x' % rng.getrandbits(64), 'tree': g['tree'], 'manifests': g['manifests'],
            'tz': rng.choice(TZS), 'epoch_ns': rng.choice(EPOCHS) * 10**9 + rng.choice([0, 300_000_000, 999_000_000]),
            'rounds': rounds, 'opts': opts, 'ticks': rng.choice(['mixed', 'mixed', 'micro']), 'create0': rng.random() < 0.25}


def read_manifests(root):
    out = {}
    for d, dn, fn in os.walk(root):
        for n in fn:
            if n == 'Manifest' or n.startswith('Manifest.'):
                p = os.path.join(d, n)
                rel = os.path.relpath(p, root)
                try:
                    with _o['open'](p, 'rb') as f:
                        text = G.decompress(f.read(), G.comp_of(n)).decode('utf8')
                except Exception as e:
                    text = '<unreadable %r>' % (e,)
                lines = [l for l in text.split('\n') if not l.startswith('TIMESTAMP ')]
                # MANIFEST entries of the top-level differ if the child differs; children carry no TIMESTAMP
                out[rel] = '\n'.join(lines)
    return out


def top_timestamp(root):
    try:
        with _o['open'](os.path.join(root, 'Manifest'), 'r', encoding='utf8') as f:
            for l in f:
                if l.startswith('TIMESTAMP '):
                    return datetime.datetime.strptime(l.split()[1], '%Y-%m-%dT%H:%M:%SZ').replace(
                        tzinfo=datetime.timezone.utc)
    except OSError:
        pass
    return None


def resolve_mtime(mt, T_ns, now_ns):
    cls, mag = mt
    if T_ns is None:
        return now_ns
    if cls == 'older':
        return T_ns - mag * 10**9
    if cls == 'equal':
        return T_ns
    if cls == 'nss':
        return T_ns + 300_000_000
    return T_ns + mag * 10**9


def apply_op(root, op, t_ns, recorded=None, hashes=('SHA256',)):
    p = os.path.join(root, op['p'])
    k = op['k']
    try:
        if k == 'adddir':
            if os.path.lexists(p):
                return False
            os.makedirs(p)
            ents = []
            for n, c in sorted(op['files'].items()):
                with _o['open'](os.path.join(p, n), 'wb') as f:
                    f.write(c.encode())
                _o['os.utime'](os.path.join(p, n), ns=(t_ns, t_ns))
                ents.append({'tag': 'DATA', 'path': n, 'size': len(c.encode()), 'sums': G.digests(c.encode(), list(hashes))})
            with _o['open'](os.path.join(p, 'Manifest'), 'w') as f:
                f.write(G.dump(ents))
            _o['os.utime'](os.path.join(p, 'Manifest'), ns=(t_ns, t_ns))
            return True
        if k == 'add':
            if os.path.lexists(p):
                return False     # would be a modification with an unconstrained mtime
            os.makedirs(os.path.dirname(p), exist_ok=True)
            with _o['open'](p, 'wb') as f:
                f.write(op['c'].encode())
        elif k == 'delete':
            _o['os.unlink'](p)
            return True
        elif k == 'same':
            with _o['open'](p, 'rb') as f:
                d = bytearray(f.read())
            if not d:
                return False
            d[op['salt'] % len(d)] ^= (op['salt'] % 7) + 1
            with _o['open'](p, 'wb') as f:
                f.write(d)
        elif k == 'other':
            with _o['open'](p, 'rb') as f:
                old = f.read()
            new = op['c'].encode()
            # "size changed" is meant relative to what the Manifest records
            while len(new) == len(old) or (recorded is not None and len(new) == recorded.get(op['p'])):
                new += b'!'
            with _o['open'](p, 'wb') as f:
                f.write(new)
        _o['os.utime'](p, ns=(t_ns, t_ns))
        return True
    except OSError:
        return False


def execute(sc):
    violations = []
    counters = {}
    outcome = []
    modified = 0
    with World(sc, subdir='A') as w:
        A = w.root
        B = os.path.join(w.base, 'B')
        _o['os.mkdir'](B)
        w.build(root=A)
        w.build(root=B)
        clock = Clock(epoch_ns=sc.get('epoch_ns', w.epoch_ns), key=sc['order_key'], mode=sc.get('ticks', 'mixed'))
        # trees were stamped relative to world epoch; restamp relative to the clock epoch
        for root in (A, B):
            for d, dn, fn in os.walk(root):
                for n in fn:
                    p = os.path.join(d, n)
                    st = _o['os.lstat'](p)
                    if os.path.islink(p):
                        continue
                    t = clock.epoch_ns - 5_000_000_000 + (st.st_mtime_ns - w.epoch_ns)
                    _o['os.utime'](p, ns=(t, t))
        state = {'scan_start': None}

        def hook_scanstart(seam, n, kind, rel):
            if kind == 'scandir' and state['scan_start'] is None:
                state['scan_start'] = seam.clock.now_ns
        seam = Seam(w.base, order_key=sc['order_key'], virtual_root=True, clock=clock, hook=hook_scanstart,
                    order_alias=('A', 'B'))
        old_dt = gemato.cli.datetime
        gemato.cli.datetime = make_datetime_shim(clock)
        try:
            base_args = ['-H', ' '.join(sc['opts']['hashes'])]
            if sc['opts'].get('watermark') is not None:
                base_args += ['-c', str(sc['opts']['watermark'])]
            tz = sc.get('tz', 'UTC0')

            def upd(root, extra, opi, second=False):
                state['scan_start'] = None
                roots = [root]
                if second:
                    z = root + '-second'
                    if not os.path.isdir(z):
                        _o['os.mkdir'](z)
                        with _o['open'](os.path.join(z, 'z'), 'w') as f_:
                            f_.write('second tree')
                    with _o['open'](os.path.join(z, 'Manifest'), 'w') as f_:
                        f_.write('TIMESTAMP 2038-01-01T00:00:00Z\nDATA z 11\n')
                    roots.append(z)
                    counters['updates_naming_a_second_tree'] = counters.get('updates_naming_a_second_tree', 0) + 1
                with seam:
                    seam.begin_op(opi)
                    c = run_cli(['update'] + extra + base_args + roots, tz=tz)
                return cli_as_call(c), state['scan_start']

            # round 0: both get a TIMESTAMP
            opi = 0
            for root in (A, B):
                if sc.get('create0'):
                    # the tree gets its first TIMESTAMP from `gemato create --timestamp` on a tree without Manifests
                    for d_, dn_, fn_ in os.walk(root):
                        for n_ in fn_:
                            if n_ == 'Manifest' or n_.startswith('Manifest.'):
                                _o['os.unlink'](os.path.join(d_, n_))
                    state['scan_start'] = None
                    with seam:
                        seam.begin_op(opi)
                        c0 = run_cli(['create', '-t'] + base_args + [root], tz=tz)
                    r, ss = cli_as_call(c0), state['scan_start']
                    ts0 = top_timestamp(root)
                    if r[0] == 'ok' and ts0 is not None and ss is not None and int(ts0.timestamp()) * 10**9 > ss:
                        violations.append(viol('incr.timestamp-after-scan-start',
                                               'create --timestamp: TIMESTAMP %s is later than the simulated clock when scanning started (%s)' % (
                                                   ts0.isoformat(), datetime.datetime.fromtimestamp(ss / 1e9, datetime.timezone.utc).isoformat()),
                                               sig='create'))
                    counters['first_timestamp_from_create'] = 1
                else:
                    r, ss = upd(root, ['-t', '-f'], opi)
                opi += 1
                if r[0] == 'INTERNAL':
                    violations.append(viol('I-internal', 'internal error escaped: %s: %s' % (r[1], r[2]), sig=r[1]))
                if r[0] != 'ok':
                    return mk_result([seam], violations, False, outcome=['setup', r[0], str(r[1])[:60]], counters={'setup_failed': 1})
            import hashlib

            def state_of(root):
                out = {}
                for d, dn, fn in os.walk(root):
                    for n in fn:
                        p = os.path.join(d, n)
                        try:
                            with _o['open'](p, 'rb') as f:
                                data = f.read()
                            out[os.path.relpath(p, root)] = (len(data), hashlib.sha1(data).hexdigest())
                        except OSError:
                            pass
                return out

            def sizes(root):
                return dict((k, v[0]) for k, v in state_of(root).items())
            recorded_state = state_of(A)
            recorded = sizes(A)
            T_hold = None
            for ri, rnd in enumerate(sc.get('rounds', [])):
                clock.advance(rnd.get('advance_ns', 0))
                if rnd.get('advance_ns', 0) < 0:
                    counters['clock_stepped_back'] = counters.get('clock_stepped_back', 0) + 1
                    seam.fired['clock-step-back'] = seam.fired.get('clock-step-back', 0) + 1
                TA = top_timestamp(A)
                T_ns = int(TA.timestamp()) * 10**9 if TA else None
                if T_hold is not None:
                    # the updates of the previous round refused: the modifications made since are still measured against
                    # the TIMESTAMP of the last update that completed
                    T_ns = T_hold
                for op in rnd.get('ops', []):
                    t = resolve_mtime(op['mt'], T_ns, clock.now_ns) if 'mt' in op else clock.now_ns
                    okA = apply_op(A, op, t, recorded, hashes=sc['opts']['hashes'])
                    apply_op(B, op, t, recorded, hashes=sc['opts']['hashes'])
                    if okA and op['k'] in ('same', 'other', 'add', 'delete', 'adddir'):
                        modified += 1
                    counters['op.' + op['k'] + ('.' + op['mt'][0] if 'mt' in op else '')] = counters.get(
                        'op.' + op['k'] + ('.' + op['mt'][0] if 'mt' in op else ''), 0) + 1
                # the statement's premise is about the NET effect of the round: a file whose content
                # differs from what the Manifest records, with the recorded size, must be newer than T
                if T_ns is not None:
                    cur = state_of(A)
                    for pth, (sz, dg) in cur.items():
                        old = recorded_state.get(pth)
                        if old is not None and old[0] == sz and old[1] != dg:
                            for root in (A, B):
                                fp = os.path.join(root, pth)
                                if _o['os.stat'](fp).st_mtime_ns <= T_ns + 999_999_999 and \
                                        _o['os.stat'](fp).st_mtime_ns // 10**9 <= T_ns // 10**9 and \
                                        _o['os.stat'](fp).st_mtime_ns <= T_ns:
                                    _o['os.utime'](fp, ns=(T_ns + 10**9, T_ns + 10**9))
                                    counters['premise_enforced'] = counters.get('premise_enforced', 0) + 1
                clock.advance(1_000_000)
                # A: incremental, possibly with a concurrent writer
                inter = rnd.get('interleave')
                fired = {'done': False, 't': None}
                if inter:
                    target_rel = 'A/' + inter

                    def hook(seam_, n, kind, rel, _t=target_rel):
                        hook_scanstart(seam_, n, kind, rel)
                        if kind == 'close' and rel == _t and not fired['done']:
                            fired['done'] = True
                            # the statement's premise: a same-size modification carries an mtime later than the previous
                            # TIMESTAMP (after a backward clock step the writer's own clock would not give it one)
                            fired['t'] = max(seam_.clock.now_ns, (T_ns or 0) + 10**9)
                            apply_op(A, {'k': 'same', 'p': inter, 'salt': 77}, fired['t'])
                    seam.hook = hook
                now_before = clock.now_ns
                van = rnd.get('vanish')

                def with_vanish(root_name, root, fn):
                    if not van or not os.path.isfile(os.path.join(root, van)):
                        return fn()
                    vdir = root_name + ('/' + os.path.dirname(van) if os.path.dirname(van) else '')
                    aside = os.path.join(w.base, '.aside-' + root_name)
                    st_ = {'done': False}

                    def hook(seam_, n, kind, rel):
                        hook_scanstart(seam_, n, kind, rel)
                        if kind == 'scandir.next' and rel == vdir and not st_['done']:
                            st_['done'] = True
                            _o['os.rename'](os.path.join(root, van), aside)
                    seam.hook = hook
                    try:
                        return fn()
                    finally:
                        seam.hook = hook_scanstart
                        if st_['done'] and os.path.exists(aside):
                            _o['os.rename'](aside, os.path.join(root, van))
                            counters['files_vanished_during_scan'] = counters.get('files_vanished_during_scan', 0) + 1
                            seam.fired['file-vanished-during-scan'] = seam.fired.get('file-vanished-during-scan', 0) + 1
                obst = rnd.get('obstacle')
                obst_paths = []
                if obst:
                    for root in (A, B):
                        op_ = os.path.join(root, obst['d'], 'obstacle-pipe' if obst['k'] == 'fifo' else 'caf\udce9.txt')
                        try:
                            if obst['k'] == 'fifo':
                                os.mkfifo(op_)
                            else:
                                with _o['open'](op_, 'w') as f_:
                                    f_.write('x')
                            obst_paths.append(op_)
                        except OSError:
                            pass
                rA, ssA = with_vanish('A', A, lambda: upd(A, ['-i'] + (['-t'] if rnd.get('explicit_t') else []), opi, second=bool(rnd.get('second_tree'))))
                opi += 1
                seam.hook = hook_scanstart
                rB, ssB = with_vanish('B', B, lambda: upd(B, (['-t'] if rnd.get('explicit_t') else []), opi, second=bool(rnd.get('second_tree'))))
                opi += 1
                for op_ in obst_paths:
                    _o['os.unlink'](op_)
                if len(obst_paths) == 2:
                    counters['rounds_with_an_unrecordable_object'] = counters.get('rounds_with_an_unrecordable_object', 0) + 1
                    seam.fired['unrecordable-object-during-update'] = seam.fired.get('unrecordable-object-during-update', 0) + 1
                if inter and fired['done']:
                    # B receives the same modification between the rounds
                    apply_op(B, {'k': 'same', 'p': inter, 'salt': 77}, fired['t'])
                    counters['interleaved_writes'] = counters.get('interleaved_writes', 0) + 1
                    seam.fired['concurrent-write-after-hash'] = seam.fired.get('concurrent-write-after-hash', 0) + 1
                outcome.append([ri, rA[0], str(rA[1])[:40] if rA[0] != 'ok' else 'ok', rB[0]])
                for r in (rA, rB):
                    if r[0] == 'INTERNAL':
                        violations.append(viol('I-internal', 'internal error escaped: %s: %s' % (r[1], r[2]), sig=r[1]))
                if rA[0] != 'ok' or rB[0] != 'ok':
                    if (rA[0] == 'ok') != (rB[0] == 'ok'):
                        if van:
                            # one replica met the vanished file, the other had nothing to hash in that directory
                            counters['vanish_outcomes_differ'] = counters.get('vanish_outcomes_differ', 0) + 1
                            break
                        violations.append(viol('incr.outcome-differs', 'round %d: incremental %s, full %s' % (ri, describe(rA), describe(rB)), sig='%s/%s' % (rA[0], rB[0])))
                        break
                    if van or len(obst_paths) == 2:
                        T_hold = T_ns
                        continue      # both refused: the history goes on, the round's modifications are owed to the next update
                    break
                T_hold = None
                # TIMESTAMP never later than the moment scanning started
                for name, root, ss, op_i in (('A', A, ssA, opi - 2), ('B', B, ssB, opi - 1)):
                    ts = top_timestamp(root)
                    # only a TIMESTAMP this update wrote: after a backward clock step an update that changes nothing
                    # leaves the old (now "future") line alone
                    wrote_top = any(e[0] == op_i and e[2].split(' -> ')[-1] == name + '/Manifest' for e in seam.write_events)
                    if not wrote_top:
                        continue
                    if ts is not None and ss is not None and int(ts.timestamp()) * 10**9 > ss:
                        violations.append(viol('incr.timestamp-after-scan-start',
                                               'round %d replica %s: TIMESTAMP %s is later than the simulated clock when scanning started (%s)' % (
                                                   ri, name, ts.isoformat(), datetime.datetime.fromtimestamp(ss / 1e9, datetime.timezone.utc).isoformat()),
                                               sig=name))
                recorded_state = state_of(A)
                recorded = sizes(A)
                ma = read_manifests(A)
                mb = read_manifests(B)
                counters['rounds_compared'] = counters.get('rounds_compared', 0) + 1
                if ma != mb and not (inter and fired['done']):
                    diff = sorted(k for k in set(ma) | set(mb) if ma.get(k) != mb.get(k))
                    k0 = diff[0]
                    la = set((ma.get(k0) or '').split('\n'))
                    lb = set((mb.get(k0) or '').split('\n'))
                    violations.append(viol('incr.differs-from-full',
                                           'round %d (TZ=%s): incremental and full replicas differ in %r; only-incremental %r only-full %r' % (
                                               ri, tz, diff[:3], sorted(la - lb)[:2], sorted(lb - la)[:2]), sig='TZ=' + tz.split(',')[0]))
                    break
        finally:
            gemato.cli.datetime = old_dt
    counters['file_operations_applied'] = modified
    if seam.stats.get('leaked_fds'):
        # conservation: every descriptor an update opens is closed again - an incremental update that keeps one per skipped
        # file runs out of descriptors on a tree of a few thousand files, a full update does not
        violations.append(viol('incr.descriptor-leak', '%d file descriptor(s) opened by the updates were never closed' % seam.stats['leaked_fds'], sig='fd'))
    return mk_result([seam], violations, modified > 0 and counters.get('rounds_compared', 0) > 0, outcome=outcome,
                     counters=counters, ops=2 + 2 * len(sc.get('rounds', [])))
