"""C06 I/O errors never turn into success or into 'file absent'.

Level: fault enumeration.  For each generated world and operation the
fault-free call trace at the seam is recorded; then for EVERY filesystem call
of that trace (open, os.open, stat, fstat, scandir creation, scandir
iteration, read) the same fresh world is run again with a single OSError
injected at exactly that call, for several errnos.  Plus persistent
"unreadable object" faults (every open/scandir of one path fails, stat works).
"""
import os

from gemato.recursiveloader import ManifestRecursiveLoader

from .. import gen_tree as GT
from ..common import genuine_oserror, call, mk_result, run_cli, viol, internal_violations
from ..model import Model
from ..seam import Seam
from ..world import World, blocking_manifest

ID = 'C06'
LEVEL = 'fault_enumeration'
RULE = ('each evaluation = one (world, operation, fault site, errno) run: worlds are consistent generated trees '
        '(some with one unreadable listed or stray object), operations are library verify (strict and '
        'keep-going), CLI verify, library update scan+save, CLI update and CLI create, CLI verify/update started on a '
        'sub-directory that has its own Manifest (discovery walks up through it), and library verify repeated on the '
        'same loader after the transient fault (tree with one discrepancy: the retry must not succeed); fault sites are ALL '
        'open/os.open/stat/fstat/scandir/scandir-iteration/read calls of the recorded fault-free trace '
        '(exhaustive per world and operation), errnos drawn without replacement from the list (all of '
        'them in the thorough tier); non-trivial = the fault fired; distinct = distinct (event-log digest)')
PLAN = {'quick': {'n': 300, 'budget_s': 90, 'block': 2, 'det': 3, 'run_timeout_s': 900},
        'thorough': {'n': 3200, 'budget_s': 2400, 'block': 4, 'det': 4, 'run_timeout_s': 1800}}
ASSUMPTIONS = ['faults are injected at Python-level calls; DirEntry.is_dir() fails only as part of a persistently broken object (its open/stat/lstat fail too) - alone it is not a fault site, os.walk is documented to swallow it; the fstat inside io.FileIO is not a fault site (DESIGN §9)',
               'ENOENT is never injected (it means absent); EINTR is retried below the seam by CPython']

ERRNOS = ['EACCES', 'EPERM', 'EIO', 'ENOMEM', 'ELOOP', 'ENOTDIR', 'EMFILE', 'ENFILE',
          'ENAMETOOLONG', 'EBUSY', 'ESTALE', 'EOVERFLOW']
SITE_KINDS = ('open', 'os.open', 'stat', 'lstat', 'fstat', 'scandir', 'scandir.next', 'read')
OPS = ['verify', 'verify', 'verify-kg', 'cli-verify', 'cli-verify-kg', 'update', 'cli-update', 'cli-create', 'verify-sub',
       'cli-verify-sub', 'cli-verify-sub', 'cli-update-sub', 'verify-retry', 'verify-retry']


def generate(rng, tier, idx):
    op = rng.choice(OPS)
    g = GT.gen_tree(rng, {'top': 'Manifest', 'max_files': 6, 'max_dirs': 4, 'p_conflict': 0.0, 'p_dup': 0.05,
                          'hostile': rng.random() < 0.3,
                          # listed dotfiles / files in dot-directories: verified by the pass that follows the walk
                          'p_listed_hidden': 0.6 if 'verify' in op else 0.0})
    info = g['info']
    if op in ('update', 'cli-update') and rng.random() < 0.35:
        # a plain shape that every update meets: several sibling directories, most with a Manifest of their own, files
        # edited since.  Whatever the update has pending for one directory when a call fails in a later one must
        # not have reached the disk
        names_ = rng.sample(['aa', 'bb', 'mm', 'zz', 'a b'], rng.choice([2, 3, 4]))
        tree_, mans_, tops_, files_ = [], [], [], []
        for d_ in names_:
            for n_ in (['f'] if rng.random() < 0.6 else ['f', 'g']):
                tree_.append({'p': d_ + '/' + n_, 'k': 'file', 'c': 'content of %s/%s' % (d_, n_)})
                files_.append(d_ + '/' + n_)
            if rng.random() < 0.7:
                mans_.append({'p': d_ + '/Manifest', 'entries': [{'tag': 'DATA', 'path': os.path.basename(f_), 'hashes': ['SHA256']}
                                                               for f_ in files_ if f_.startswith(d_ + '/')]})
                tops_.append({'tag': 'MANIFEST', 'path': d_ + '/Manifest', 'hashes': ['SHA256']})
            else:
                tops_ += [{'tag': 'DATA', 'path': f_, 'hashes': ['SHA256']} for f_ in files_ if f_.startswith(d_ + '/')]
        mans_.append({'p': 'Manifest', 'entries': tops_})
        g = {'tree': tree_, 'manifests': mans_}
        info = {'need': files_, 'view_dirs': [''] + names_, 'manifests': [m_['p'] for m_ in mans_]}
        shaped_muts = [{'m': 'rewrite', 'p': f_, 'c': 'edited ' + f_} for f_ in files_ if rng.random() < 0.8]
    else:
        shaped_muts = []
    if rng.random() < 0.06 and op != 'cli-create':
        # one listed file beyond the 1 MiB threshold of the hashing code (streamed in blocks instead of slurped): every
        # one of its reads, the last one that only finds the end of the file included, is a fault site
        topm_ = [m_ for m_ in g['manifests'] if m_['p'] == 'Manifest']
        if topm_ and not any(t_['p'] == 'big.bin' for t_ in g['tree']):
            g['tree'].append({'p': 'big.bin', 'k': 'file', 'prng': [rng.getrandbits(32), 1048576 + rng.choice([0, 1, 4096, 70000])]})
            topm_[0]['entries'].append({'tag': 'DATA', 'path': 'big.bin', 'hashes': ['SHA256']})
    sc = {'prop': ID, 'order_key': '%016x' % rng.getrandbits(64), 'tree': g['tree'],
          'manifests': g['manifests'], 'op': op, 'muts': []}
    if op in ('verify', 'verify-sub', 'verify-kg', 'update') and rng.random() < 0.3:
        # with a last_mtime later than every file: contents need not be read, the files are still opened and stat'ed
        sc['lm'] = True
    if op == 'verify-sub':
        subs = [d for d in info['view_dirs'] if d and not any(c.startswith('.') for c in d.split('/'))]
        sc['sub'] = rng.choice(subs) if subs else ''
    if op in ('cli-verify-sub', 'cli-update-sub'):
        # started on a sub-directory that has a Manifest of its own: discovery walks upwards through it to the real
        # top-level Manifest, and every open on that way is a fault site
        own = sorted(set(os.path.dirname(m['p']) for m in g['manifests']
                         if os.path.dirname(m['p']) and not any(c.startswith('.') for c in m['p'].split('/'))))
        if own:
            sc['sub'] = rng.choice(own)
        else:
            op = sc['op'] = 'cli-verify' if op == 'cli-verify-sub' else 'cli-update'
    if op == 'verify-retry' and rng.random() < 0.7:
        # the tree has a discrepancy: a call repeated on the same loader after a transient I/O error must not
        # succeed either (loader state poisoned by the failed call)
        sc['muts'] = GT.gen_mutations(rng, info, 1, allow_manifest=True, allow_retype=False)
    if op == 'cli-create':
        sc['manifests'] = []
    if op in ('update', 'cli-update', 'cli-update-sub'):
        # give the update something to do
        sc['muts'] = GT.gen_mutations(rng, info, rng.choice([0, 1, 2]), allow_manifest=False, allow_retype=False)
        sc['hashes'] = rng.choice([['SHA256'], ['MD5', 'SHA1'], ['BLAKE2B', 'SHA512']])
        sc['muts'] = list(sc['muts']) + shaped_muts
        if rng.random() < 0.6:
            # pending changes below sub-Manifests (several of them): whatever the update does with them before the scan is
            # over must not reach the disk if a later call fails
            mdirs_ = sorted(set(os.path.dirname(m['p']) for m in g['manifests'] if os.path.dirname(m['p'])))
            under = [f for f in info['need'] if any(f.startswith(d_ + '/') for d_ in mdirs_)]
            for f in rng.sample(under, min(len(under), rng.choice([1, 2, 3]))):
                sc['muts'] = list(sc['muts']) + [{'m': 'rewrite', 'p': f, 'c': 'changed ' + GT.rand_content(rng)}]
    if op in ('update', 'cli-update', 'cli-update-sub', 'cli-create') and rng.random() < 0.35:
        # a Manifest file nothing refers to yet: the update scan opens and reads it (fault sites of their own)
        mdirs_ = set(os.path.dirname(m['p']) for m in g['manifests'])
        cand_ = [d for d in info['view_dirs'] if d and d not in mdirs_ and not any(c.startswith('.') for c in d.split('/'))]
        if cand_:
            ud = rng.choice(cand_)
            sc['muts'] = list(sc['muts']) + [{'m': 'add', 'p': ud + '/' + rng.choice(['Manifest', 'Manifest', 'Manifest.gz']), 'k': 'file',
                                              'c': rng.choice(['', 'DATA nothing-here 1\n'])}]
    nerr = len(ERRNOS) if tier == 'thorough' else 2
    sc['errnos'] = rng.sample(ERRNOS, nerr)
    # persistent unreadable object
    sc['unreadable'] = None
    if rng.random() < 0.35:
        pool = info['need'] + [d for d in info['view_dirs'] if d]
        if pool:
            sc['unreadable'] = {'path': rng.choice(pool), 'errno': rng.choice(['EACCES', 'EPERM', 'EIO'])}
    if rng.random() < 0.15:
        sc['stray_unreadable'] = True
        sc['muts'] = list(sc['muts']) + [{'m': 'add', 'p': 'unreadable-stray', 'k': 'file', 'c': 'secret'}]
        sc['unreadable'] = {'path': 'unreadable-stray', 'errno': 'EACCES'}
    if sc['unreadable'] and rng.random() < 0.5:
        # ... and not even its directory entry can be classified (no d_type, the implied stat fails too): whoever lists the
        # directory must not take "cannot tell what it is" for "nothing there"
        u_ = sc['unreadable']['path']
        if u_ == 'unreadable-stray' or (u_ in info['need'] and not any(c.startswith('.') for c in u_.split('/'))):
            sc['unreadable'] = {'path': u_, 'errno': 'EIO', 'broken_entry': True}
    return sc


def run_op(sc, w, seam, mismatches, extra=None):
    """Runs the operation under the seam; returns (call result, cli result or None)."""
    op = sc['op']
    top = os.path.join(w.root, 'Manifest')

    def handler(e):
        mismatches.append((e.path, [tuple(d) for d in e.diff]))
        return False
    lmk = {'last_mtime': w.epoch_ns / 1e9 + 10**6} if sc.get('lm') else {}
    with seam:
        seam.begin_op(0)
        if op in ('verify', 'verify-sub'):
            r = call(lambda: ManifestRecursiveLoader(top).assert_directory_verifies(sc.get('sub', ''), **lmk))
        elif op == 'verify-retry':
            box = {}

            def first():
                box['m'] = ManifestRecursiveLoader(top)
                return box['m'].assert_directory_verifies('')
            r = call(first)
            if extra is not None and 'm' in box:
                if r[0] != 'ok' and not (r[0] == 'GE'):
                    # the first call failed with the injected (one-shot) error: same loader, once more
                    extra['retry'] = call(lambda: box['m'].assert_directory_verifies(''))
        elif op == 'verify-kg':
            r = call(lambda: ManifestRecursiveLoader(top).assert_directory_verifies('', fail_handler=handler, **lmk))
        elif op == 'cli-verify':
            c = run_cli(['verify', w.root])
            r = cli_to_r(c)
        elif op == 'cli-verify-kg':
            c = run_cli(['verify', '--keep-going', w.root])
            r = cli_to_r(c)
        elif op == 'cli-verify-sub':
            c = run_cli(['verify', os.path.join(w.root, sc['sub'])])
            r = cli_to_r(c)
        elif op == 'cli-update-sub':
            c = run_cli(['update', '-H', ' '.join(sc.get('hashes', ['SHA256'])), os.path.join(w.root, sc['sub'])])
            r = cli_to_r(c)
        elif op == 'update':
            def upd():
                m = ManifestRecursiveLoader(top, hashes=sc.get('hashes', ['SHA256']))
                m.update_entries_for_directory('', **lmk)
                m.save_manifests()
                return True
            r = call(upd)
        elif op == 'cli-update':
            c = run_cli(['update', '-H', ' '.join(sc.get('hashes', ['SHA256'])), w.root])
            r = cli_to_r(c)
        elif op == 'cli-create':
            c = run_cli(['create', '-H', 'SHA256', w.root])
            r = cli_to_r(c)
        else:
            raise ValueError(op)
    if r[0] == 'GE' and r[1] == 'ManifestMismatch':
        mismatches.append((r[2].path, [tuple(d) for d in r[2].diff]))
    return r


def cli_to_r(c):
    if c['kind'] == 'ok':
        if c['rc'] == 0:
            return ('ok', True)
        return ('GE', 'cli-exit-%s' % c['rc'], None)
    if c['kind'] == 'EXIT':
        return ('GE', 'cli-exit-%s' % c['rc'], None)
    return (c['kind'], c['name'], c.get('exc'))


def build(sc, w):
    w.build()
    for m in sc.get('muts', []):
        w.mutate(m)


def sites_of(events):
    """stable site ids: (kind, rel, nth occurrence)"""
    seen = {}
    out = []
    for n, kind, rel, outcome in events:
        k = (kind, rel)
        seen[k] = seen.get(k, 0) + 1
        if kind in SITE_KINDS:
            out.append([kind, rel, seen[k]])
    return out


def first_write_index(events):
    for i, (n, kind, rel, outcome) in enumerate(events):
        if kind in ('open.w', 'os.open.w', 'write', 'unlink', 'rename', 'truncate'):
            return n
    return None


def execute(sc):
    violations = []
    counters = {}
    seams = []
    updating = sc['op'] in ('update', 'cli-update', 'cli-create', 'cli-update-sub')
    # ---- fault-free reference run
    with World(sc) as w:
        build(sc, w)
        if blocking_manifest(w.root):
            s = Seam(w.root)
            return mk_result([s], [], False, outcome='skipped')
        base_mm = []
        seam0 = Seam(w.root, order_key=sc['order_key'], virtual_root=True)
        r0 = run_op(sc, w, seam0, base_mm)
        events0 = list(seam0.events)
        seams.append(seam0)
    if r0[0] == 'INTERNAL':
        violations += internal_violations([r0])
        return mk_result(seams, violations, False, outcome=['fault-free', r0[0], r0[1]])
    base_absent = set(p for p, diff in base_mm for d in diff if d[0] == '__exists__' and d[2] is False)
    sites = sites_of(events0)
    if updating:
        fw = first_write_index(events0)
        if fw is not None:
            # scan phase only.  It ends with the last read-side call on something that is not a Manifest (the save phase
            # reads and writes Manifest files only) - not with the first write, which a broken scan may issue early
            last_scan = None
            for n, kind, rel, outcome in events0:
                if kind in SITE_KINDS and not os.path.basename(rel or '').startswith('Manifest'):
                    last_scan = n
            seen = 0
            for n, kind, rel, outcome in events0:
                if n >= fw and (last_scan is None or n > last_scan):
                    break
                if kind in SITE_KINDS:
                    seen += 1
            sites = sites[:seen]
    plans = []
    only = sc.get('only')
    if only is not None:
        plans = [dict(p) for p in only]
    else:
        for s in sites:
            for en in sc['errnos']:
                plans.append({'kinds': [s[0]], 'path': s[1], 'nth': s[2], 'errno': en})
        if sc.get('unreadable'):
            u = sc['unreadable']
            plans.append({'kinds': ['open', 'os.open', 'scandir'] + (['stat', 'lstat'] if u.get('broken_entry') else []),
                          'path': u['path'], 'persistent': True, 'errno': u['errno'], **({'broken_entry': True} if u.get('broken_entry') else {})})
    fired_runs = 0
    outcome_classes = {}
    for plan in plans:
        with World(sc) as w:
            build(sc, w)
            snap0 = w.snapshot()
            mm = []
            seam = Seam(w.root, order_key=sc['order_key'], virtual_root=True, faults=[{k_: v_ for k_, v_ in plan.items() if k_ != 'broken_entry'}],
                        broken_entries=[plan['path']] if plan.get('broken_entry') else None)
            extra = {}
            r = run_op(sc, w, seam, mm, extra)
            snap1 = w.snapshot()
            # (an OS error other than the injected one: does the object really answer with it?)
            other_genuine = r[0] == 'OS' and r[1] != plan['errno'] and genuine_oserror(r[2])
        seams.append(seam)
        fired = sum(f_.get('_fired', 0) for f_ in seam.faults) + seam.stats.get('broken_entry_probed', 0)
        if plan.get('broken_entry') and seam.stats.get('broken_entry_probed'):
            counters['entries_that_cannot_be_classified'] = counters.get('entries_that_cannot_be_classified', 0) + 1
        if not fired:
            counters['fault_not_reached'] = counters.get('fault_not_reached', 0) + 1
            continue
        fired_runs += 1
        site = '%s %s #%s %s%s' % (plan['kinds'], plan['path'], plan.get('nth', '*'), plan['errno'],
                                   ' persistent' if plan.get('persistent') else '')
        cls = '%s:%s' % (r[0], r[1] if r[0] != 'ok' else r[1])
        outcome_classes[cls] = outcome_classes.get(cls, 0) + 1
        patch = {'only': [plan]}
        if r[0] == 'INTERNAL':
            v = viol('I-internal', 'internal error escaped: %s: %s (fault %s)' % (r[1], r[2], site), sig=r[1])
            v['scenario_patch'] = patch
            violations.append(v)
            continue
        if r[0] == 'ok' and r[1] in (True, None):
            v = viol('fault.success', '%s reported success although %s failed' % (sc['op'], site),
                     sig='%s@%s' % (sc['op'], plan['kinds'][0]))
            v['scenario_patch'] = patch
            violations.append(v)
        elif r[0] == 'OS' and r[1] != plan['errno']:
            # another genuine OS error is fine only if the fault-free run had it too
            if other_genuine:
                counters['another_genuine_oserror_first'] = counters.get('another_genuine_oserror_first', 0) + 1
            elif not (r0[0] == 'OS' and r0[1] == r[1]):
                v = viol('fault.other-oserror', '%s: injected %s but %s:%s escaped' % (sc['op'], site, r[0], r[1]),
                         sig='%s:%s' % (r[0], r[1]))
                v['scenario_patch'] = patch
                violations.append(v)
        elif r[0] in ('CODEC', 'DECODE', 'STEP-LIMIT'):
            v = viol('fault.wrong-failure', '%s: injected %s but %s:%s escaped' % (sc['op'], site, r[0], r[1]),
                     sig='%s:%s' % (r[0], r[1]))
            v['scenario_patch'] = patch
            violations.append(v)
        if 'retry' in extra and not plan.get('persistent'):
            r2 = extra['retry']
            counters['retries_on_the_same_loader'] = counters.get('retries_on_the_same_loader', 0) + 1
            if r0[0] != 'ok' and r2[0] == 'ok':
                v = viol('fault.retry-success', 'verification fails without faults (%s:%s); after the transient %s the same call '
                         'repeated on the same loader reported success' % (r0[0], r0[1], site), sig='retry@%s' % plan['kinds'][0])
                v['scenario_patch'] = patch
                violations.append(v)
            elif r0[0] == 'ok' and r2[0] != 'ok':
                counters['retry_did_not_recover'] = counters.get('retry_did_not_recover', 0) + 1
            elif r0[0] == 'ok':
                counters['retry_recovered'] = counters.get('retry_recovered', 0) + 1
        # never 'absent'
        absent = set(p for p, diff in mm for d in diff if d[0] == '__exists__' and d[2] is False)
        new_absent = absent - base_absent
        frel = plan['path']
        for p in new_absent:
            if frel == p or frel.startswith(p + '/') or p.startswith(frel + '/'):
                v = viol('fault.reported-absent', '%s: %s failed and %r was reported as non-existent' % (sc['op'], site, p),
                         sig='%s@%s' % (sc['op'], plan['kinds'][0]))
                v['scenario_patch'] = patch
                violations.append(v)
        if updating:
            if seam.write_events or snap0 != snap1:
                v = viol('fault.update-wrote', '%s failed (%s) but wrote: %r' % (sc['op'], site, seam.write_events[:4]),
                         sig='%s@%s' % (sc['op'], plan['kinds'][0]))
                v['scenario_patch'] = patch
                violations.append(v)
        else:
            if seam.write_events or snap0 != snap1:
                v = viol('I-writes', 'verification wrote to the tree under fault %s: %r' % (site, seam.write_events[:4]), sig='verify')
                v['scenario_patch'] = patch
                violations.append(v)
        if len(violations) > 6:
            break
    counters['worlds'] = 1
    counters['fault_sites'] = len(sites)
    counters['faulted_runs'] = fired_runs
    counters['op.' + sc['op']] = 1
    for k, n in outcome_classes.items():
        counters['outcome.' + k.split(':')[0]] = counters.get('outcome.' + k.split(':')[0], 0) + n
    res = mk_result(seams, violations, fired_runs > 0,
                    outcome=['fault-free', r0[0], r0[1] if r0[0] != 'ok' else repr(r0[1]), len(sites), sorted(outcome_classes.items())],
                    counters=counters, ops=1 + len(plans))
    return res


def post_batch(ev, agg, tier):
    c = ev['coverage']
    c['fault_sites_enumerated'] = c['counters'].get('fault_sites', 0)
    c['evaluations_faulted_runs'] = c['counters'].get('faulted_runs', 0)
    c['worlds'] = c['counters'].get('worlds', 0)
    c['evaluations'] = max(c['evaluations'], c['counters'].get('faulted_runs', 0))
    c['exhaustive'] = False
    c['exhaustive_note'] = 'fault placement is exhaustive per world and operation over the recorded trace; worlds and errnos are sampled'
    return None
