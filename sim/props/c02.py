"""C02 Sub-Manifests are trusted only through an unbroken hash chain from the
top.

World: Manifest chains of depth 1-5 with one or two Manifests per level in
mixed compression formats.  Fault: the attacker operation - tamper with a data
file (change / add / remove) or a DIST entry at depth d and rewrite, with
correct sizes and digests, every Manifest on the way up to some level k; the
Manifest above stays untouched.  Every lookup/verification API is then probed
on a fresh loader.  Oracle: the model follows the chain independently; any
API whose chain passes the broken link must raise ManifestMismatch for it and
return nothing.
"""
import os

from gemato.recursiveloader import ManifestRecursiveLoader

from .. import gen_tree as GT
from .. import grammar as G
from ..common import call, mk_result, viol, internal_violations
from ..model import Model, Verdict, psw, pjoin, probe, entry_matches
from ..oracles import check_strict_verify, write_violations, describe
from ..seam import Seam
from ..world import World

ID = 'C02'
LEVEL = 'exploration'
RULE = ('each run = Manifest chain of depth 1-5 (1-2 Manifests per level, plain/gz/bz2/lzma/xz) + one '
        'coordinated tampering (data file changed/added/removed or DIST entry changed at depth d, all '
        'Manifests up to level k rewritten consistently, level k-1 untouched; sometimes no tampering or '
        'a full rewrite up to the top as controls) + probes of assert_directory_verifies (root and '
        'sub-paths), verify_path, assert_path_verifies, find_path_entry, find_dist_entry on fresh '
        'loaders; non-trivial = the chain is actually broken somewhere; distinct = distinct seam '
        'event-log digest')
PLAN = {'quick': {'n': 8000, 'budget_s': 90, 'block': 40},
        'thorough': {'n': 400000, 'budget_s': 2400, 'block': 200}}
ASSUMPTIONS = ['the time-of-check/time-of-use window between hashing and parsing one Manifest is not part of the property']


def generate(rng, tier, idx):
    depth = rng.choice([1, 2, 2, 3, 3, 4, 5])
    names = ['l%d' % i for i in range(1, depth + 1)]
    if rng.random() < 0.3:
        names = [rng.choice(['with space', 'ünï', 'foo', 'a']) + str(i) for i in range(1, depth + 1)]
    tree = []
    manifests = {}
    parent = {}
    dirs = ['']
    for i in range(depth):
        dirs.append(pjoin(dirs[-1], names[i]))
    for d in dirs[1:]:
        tree.append({'p': d, 'k': 'dir'})
    level_m = []
    for lv, d in enumerate(dirs):
        if lv == 0:
            prim = 'Manifest'
        else:
            c = rng.choice(GT.COMPS)
            prim = pjoin(d, 'Manifest' + ('.' + c if c else ''))
        ms = [prim]
        manifests[prim] = []
        if rng.random() < 0.3:
            c = rng.choice(GT.COMPS)
            ex = pjoin(d, 'Manifest.b' + ('.' + c if c else ''))
            manifests[ex] = []
            ms.append(ex)
        level_m.append(ms)
    # parent links
    for lv, ms in enumerate(level_m):
        for j, mp in enumerate(ms):
            if lv == 0 and j == 0:
                continue
            if j == 1:
                cands = [ms[0]] + (level_m[lv - 1] if lv > 0 else [])
            else:
                cands = level_m[lv - 1]
            par = rng.choice(cands)
            parent[mp] = par
            pd = os.path.dirname(par)
            manifests[par].append({'tag': 'MANIFEST', 'path': os.path.relpath(mp, pd or '.'),
                                   'hashes': rng.choice([['SHA256'], ['MD5'], ['BLAKE2B', 'SHA512'], ['SHA1', 'SHA512']])})
            if rng.random() < 0.08:
                # an old tree: the reference carries only a hash this installation cannot compute (must be refused,
                # not checked by size alone)
                manifests[par][-1] = {'tag': 'MANIFEST', 'path': os.path.relpath(mp, pd or '.'), 'hashes': [],
                                      'override': {'WHIRLPOOL': '0' * 128}}
    # second references: a Manifest listed by two Manifests (same directory or the level above),
    # one of the entries possibly size-only
    for lv, ms in enumerate(level_m):
        for j, mp in enumerate(ms):
            if mp not in parent or rng.random() > 0.3:
                continue
            cands = [o for o in (level_m[lv - 1] if lv > 0 else []) + ([ms[0]] if j == 1 else []) if o != parent[mp] and o != mp]
            if not cands:
                continue
            par2 = rng.choice(cands)
            pd = os.path.dirname(par2)
            ent2 = {'tag': 'MANIFEST', 'path': os.path.relpath(mp, pd or '.'), 'hashes': rng.choice([[], [], ['SHA256'], ['MD5']])}
            if rng.random() < 0.5:
                manifests[par2].insert(0, ent2)
            else:
                manifests[par2].append(ent2)
            if rng.random() < 0.5:
                # make the ordinary reference the weak one instead
                for e in manifests[parent[mp]]:
                    if e['tag'] == 'MANIFEST' and e['path'] == os.path.relpath(mp, os.path.dirname(parent[mp]) or '.'):
                        e['hashes'], ent2['hashes'] = ent2['hashes'], (e['hashes'] or ['SHA256'])
    # data files
    files = {}
    for lv, d in enumerate(dirs):
        for n in range(rng.choice([1, 1, 2])):
            p = pjoin(d, 'f%d' % n)
            tree.append({'p': p, 'k': 'file', 'c': 'content of %s %d' % (p, rng.randrange(1000))})
            gov = rng.choice(level_m[lv])
            files[p] = gov
            gd = os.path.dirname(gov)
            manifests[gov].append({'tag': rng.choice(['DATA', 'DATA', 'MISC', 'EBUILD']),
                                   'path': os.path.relpath(p, gd or '.'),
                                   'hashes': rng.choice([['SHA256'], ['MD5', 'SHA1'], ['BLAKE2B', 'SHA512']])})
    # a directory beside the chain, covered by the top-level Manifest alone
    tree.append({'p': 'zz-other/x', 'k': 'file', 'c': 'beside the chain'})
    manifests['Manifest'].append({'tag': 'DATA', 'path': 'zz-other/x', 'hashes': ['SHA256']})
    dists = {}
    for mp in manifests:
        if rng.random() < 0.4:
            name = 'dist-%d.tar' % len(dists)
            dists[name] = mp
            manifests[mp].append({'tag': 'DIST', 'path': name, 'c': 'dist %s' % name, 'hashes': ['SHA512']})

    def chain_up(mp):
        out = [mp]
        while out[-1] in parent:
            out.append(parent[out[-1]])
        return out

    order = sorted(manifests, key=lambda k: (-k.count('/'), 0 if os.path.basename(k).startswith('Manifest.b') else 1, k))
    mlist = [{'p': mp, 'entries': manifests[mp]} for mp in order]
    # --- the attack
    muts = []
    mode = rng.choice(['none', 'tamper', 'tamper', 'tamper', 'tamper', 'tamper', 'full'])
    target = None
    if mode != 'none':
        deep = [p for p in files if files[p] != 'Manifest'] or list(files)
        kind = rng.choice(['change', 'change', 'add', 'remove', 'dist', 'remove-manifest', 'fill-empty'])
        if kind == 'remove-manifest' and not [p_ for p_ in files if files[p_] != 'Manifest']:
            kind = 'remove'
        empties = [mp_ for mp_ in manifests if mp_ in parent and not manifests[mp_]]
        if kind == 'fill-empty' and not empties:
            kind = 'add'
        if kind == 'dist' and not [n for n, mp in dists.items() if mp != 'Manifest']:
            kind = 'change'
        if kind == 'fill-empty':
            # an EMPTY sub-Manifest, recorded by its parent as `MANIFEST path 0` without any hash, is given an entry (and
            # the file to go with it); nothing above it is touched
            gov = rng.choice(empties)
            gd = os.path.dirname(gov)
            relg = os.path.relpath(gov, os.path.dirname(parent[gov]) or '.')
            for e_ in manifests[parent[gov]]:
                if e_['tag'] == 'MANIFEST' and e_['path'] == relg:
                    e_['hashes'] = []
                    e_.pop('override', None)
            np_ = pjoin(gd, 'evil-new')
            muts.append({'m': 'add', 'p': np_, 'k': 'file', 'c': 'evil new file'})
            new_entries = [{'tag': 'DATA', 'path': 'evil-new', 'hashes': ['SHA256']}]
            files[np_] = gov
            target = np_
        elif kind == 'dist':
            name = rng.choice([n for n, mp in dists.items() if mp != 'Manifest'])
            gov = dists[name]
            new_entries = [dict(e, c='evil ' + name) if (e['tag'] == 'DIST' and e['path'] == name) else e
                           for e in manifests[gov]]
            target = name
        else:
            p = rng.choice(deep)
            gov = files[p]
            gd = os.path.dirname(gov)
            if kind == 'change':
                if rng.random() < 0.5:
                    # same-length change: the rewritten plain Manifests keep their size
                    muts.append({'m': 'flip', 'p': p, 'pos': rng.randrange(0, 30), 'bit': 1})
                else:
                    muts.append({'m': 'rewrite', 'p': p, 'c': 'evil content %d' % rng.randrange(1000)})
                new_entries = manifests[gov]
                target = p
            elif kind == 'add':
                np_ = pjoin(os.path.dirname(p), 'evil-new')
                muts.append({'m': 'add', 'p': np_, 'k': 'file', 'c': 'evil new file'})
                new_entries = manifests[gov] + [{'tag': 'DATA', 'path': os.path.relpath(np_, gd or '.'), 'hashes': ['SHA256']}]
                target = np_
            elif kind == 'remove-manifest':
                # the file disappears together with the sub-Manifest that listed it; everything above stays as it was
                muts.append({'m': 'delete', 'p': p})
                muts.append({'m': 'delete', 'p': gov})
                new_entries = manifests[gov]
                target = p
            else:
                muts.append({'m': 'delete', 'p': p})
                rel = os.path.relpath(p, gd or '.')
                new_entries = [e for e in manifests[gov] if not (e.get('path') == rel and e['tag'] != 'DIST')]
                target = p
        ch = chain_up(gov)
        if kind == 'fill-empty':
            j = 1
            mode = 'tamper'
        elif kind == 'remove-manifest':
            j = 0
            mode = 'tamper'
        elif mode == 'full' or len(ch) == 1:
            j = len(ch)
        else:
            j = rng.randrange(1, len(ch))
        for i in range(j):
            mp = ch[i]
            ents = new_entries if i == 0 else manifests[mp]
            m = {'m': 'manifest', 'p': mp, 'entries': ents}
            muts.append(m)
        if rng.random() < 0.1 and j < len(ch) and G.comp_of(ch[j - 1]) is not None:
            # variant: broken Manifest additionally stored in another format, same name
            pass
    # probes
    probes = [{'api': 'dir', 'sub': ''}]
    for d in dirs[1:]:
        if rng.random() < 0.5:
            probes.append({'api': 'dir', 'sub': d})
    plist = list(files)
    rng.shuffle(plist)
    cand = plist[:3] + ([target] if target and target in files or (target and '/' in str(target)) else [])
    for p in cand:
        for api in ('find_path_entry', 'verify_path', 'assert_path_verifies'):
            if rng.random() < 0.7:
                pr = {'api': api, 'path': p}
                if rng.random() < 0.4:
                    # earlier calls on the SAME loader (what `gemato verify` does before verifying: find_timestamp;
                    # or lookups of other paths) must not let unverified Manifests in
                    pr['pre'] = rng.sample(['find_timestamp', 'find_timestamp', 'lookup:' + rng.choice(plist), 'dist:' + dirs[rng.randrange(len(dirs))],
                                            'dirlm:' + dirs[rng.randrange(len(dirs))], 'dirlm:',
                                            'dirkg:' + dirs[rng.randrange(len(dirs))], 'dirkg:'] +
                                           # (with a second Manifest in the top directory nothing is disjoint from the chain)
                                           (['updfail:zz-other'] if len(level_m[0]) == 1 else []),
                                           rng.choice([1, 1, 2]))
                if rng.random() < 0.3:
                    pr['ldr_noopenpgp'] = True
                if rng.random() < 0.3:
                    pr['ldr_hashes'] = rng.choice([['BLAKE2B', 'SHA512'], ['SHA3_256'], ['BLAKE2S', 'SHA3_512']])
                    if rng.random() < 0.3:
                        pr['ldr_profile'] = rng.choice(['ebuild', 'old-ebuild'])
                probes.append(pr)
    for d in dirs[1:]:
        if rng.random() < 0.4:
            probes.append({'api': 'dir', 'sub': d, 'pre': ['find_timestamp']})
    for name, mp in dists.items():
        if rng.random() < 0.8:
            probes.append({'api': 'find_dist_entry', 'name': name,
                           'rel': rng.choice([os.path.dirname(mp), dirs[-1], os.path.dirname(mp)])})
    if rng.random() < 0.2:
        # a ROGUE Manifest: a Manifest-named file that no accepted Manifest refers to, dropped into a directory that has
        # none (nothing else is touched).  Its DIST, IGNORE and DATA entries must not reach any lookup - not even after an
        # earlier DIST lookup for that directory on the same loader
        import base64, gzip
        rd = 'zz-other'
        text = 'DIST dist-0.tar 4 SHA512 %s\nDIST dist-rogue.tar 5 SHA512 %s\nIGNORE x\nDATA y 1 SHA256 %s\n' % ('ee' * 64, 'ab' * 64, 'cd' * 32)
        if rng.random() < 0.7:
            muts.append({'m': 'add', 'p': rd + '/Manifest', 'k': 'file', 'c': text})
        else:
            muts.append({'m': 'add', 'p': rd + '/Manifest.gz', 'k': 'file', 'b64': base64.b64encode(gzip.compress(text.encode(), mtime=0)).decode()})
        if rng.random() < 0.5:
            muts.append({'m': 'rewrite', 'p': rd + '/x', 'c': 'beside the chain, altered'})
        for rel_ in (rd, rd + '/x'):
            for name_ in ('dist-0.tar', 'dist-rogue.tar'):
                if rng.random() < 0.7:
                    probes.append({'api': 'find_dist_entry', 'name': name_, 'rel': rel_})
        for api_ in ('find_path_entry', 'verify_path', 'assert_path_verifies'):
            if rng.random() < 0.8:
                probes.append({'api': api_, 'path': rd + '/x', 'pre': ['dist:' + rng.choice([rd, rd + '/x'])]})
    return {'prop': ID, 'order_key': '%016x' % rng.getrandbits(64), 'top': 'Manifest',
            'chunks': rng.choice([None, None, None, 'mixed', 'tiny', 4096]),
            'tree': tree, 'manifests': mlist, 'muts': muts, 'ops': probes}


def model_lookup(model, loaded, path):
    """find_path_entry per the statement: deepest Manifest first; IGNORE by
    whole components; DIST/TIMESTAMP skipped."""
    for mp in sorted(loaded, key=lambda k: -len(os.path.dirname(k))):
        md = os.path.dirname(mp)
        if not psw(path, md):
            continue
        for e in loaded[mp]:
            if e['tag'] in ('DIST', 'TIMESTAMP'):
                continue
            full = os.path.normpath(pjoin(md, e['path']))
            if e['tag'] == 'IGNORE':
                if psw(path, full):
                    return e, mp
            elif full == path:
                return e, mp
    return None, None


def entry_view(e):
    if e is None:
        return None
    if e.tag == 'IGNORE':
        return ('IGNORE',)
    return (e.tag, e.size, tuple(sorted(e.checksums.items())))


def model_entry_view(e):
    if e is None:
        return None
    if e['tag'] == 'IGNORE':
        return ('IGNORE',)
    return (e['tag'], e['size'], tuple(sorted(e['sums'].items())))


def only_unauthentic_second_references(sc, v):
    """Every broken link matches the entry of one accepted parent Manifest, and the entries it fails are held by
    Manifests at or below the level from which the attacker recomputes (or the top itself was rewritten)."""
    rewritten = [m_['p'] for m_ in sc.get('muts', []) if m_.get('m') == 'manifest']
    depth = lambda p_: len([c_ for c_ in os.path.dirname(p_).split('/') if c_])
    k_level = min([depth(p_) for p_ in rewritten] or [99])
    if v.chain and sc.get('top', 'Manifest') in [m_['p'] for m_ in sc.get('muts', []) if m_.get('m') == 'manifest'] and v.partial:
        # the attacker rewrote the top-level Manifest itself: there is no untouched Manifest above the change, what is
        # left over from the old state (stale second references) may or may not be met first
        return True
    if v.chain and all(c in v.partial and c in v.chain_uncomputable for c in v.chain):
        # matched one accepted parent's entry; the other reference cannot be computed here at all (it contradicts nothing):
        # refused or not depending on which reference the loader meets first
        return True
    return bool(v.chain) and all(c in v.partial for c in v.chain) and (
        sc.get('top', 'Manifest') in rewritten or
        all(depth(h) >= k_level for c in v.chain for h in v.chain_holders.get(c, [])))


def execute(sc):
    violations = []
    zones = {}
    counters = {}
    outcome = []
    results = []
    broken_any = 0
    with World(sc) as w:
        w.build()
        for m in sc.get('muts', []):
            w.mutate(m)
        model = Model(w.root, 'Manifest')
        seam = Seam(w.root, order_key=sc['order_key'], read_chunks=sc.get('chunks'))
        snap0 = w.snapshot(with_mtime=False)
        top_path = os.path.join(w.root, 'Manifest')
        for i, op in enumerate(sc.get('ops', [])):
            api = op['api']
            with seam:
                seam.begin_op(i)
                # constructor options that only matter for updates (hash set, sorting, profile) must not weaken lookups
                lkw = {}
                if op.get('ldr_noopenpgp'):
                    lkw['verify_openpgp'] = False      # (`-P`: the hash chain is owed with or without signature checks)
                if op.get('ldr_hashes'):
                    lkw['hashes'] = list(op['ldr_hashes'])
                if op.get('ldr_profile'):
                    from gemato.profile import get_profile_by_name
                    lkw['profile'] = get_profile_by_name(op['ldr_profile'])

                def fresh_loader():
                    m = ManifestRecursiveLoader(top_path, **lkw)
                    for pre in op.get('pre', []):
                        try:
                            if pre == 'find_timestamp':
                                m.find_timestamp()
                            elif pre.startswith('lookup:'):
                                m.find_path_entry(pre[7:])
                            elif pre.startswith('dist:'):
                                m.find_dist_entry('dist-0.tar', pre[5:])
                            elif pre.startswith('dirlm:'):
                                # an incremental directory check (files not newer than last_mtime keep their size-only
                                # check) earlier on this loader
                                m.assert_directory_verifies(pre[6:], last_mtime=2.0**33)
                            elif pre.startswith('dirkg:'):
                                # a keep-going directory check (handler returns instead of raising) earlier on this loader
                                m.assert_directory_verifies(pre[6:], fail_handler=lambda e_: False)
                            elif pre.startswith('updfail:'):
                                # an update of a DISJOINT directory (it loads no Manifest of the probed chain) that fails
                                # half-way and is abandoned: no mode of it may stick to the loader
                                m.update_entries_for_directory(pre[8:], hashes=['NOPE'])
                        except Exception:
                            pass
                    if op.get('pre'):
                        counters['probes_after_earlier_calls'] = counters.get('probes_after_earlier_calls', 0) + 1
                    return m
                if api == 'dir':
                    v = model.verdict(op.get('sub', ''))
                    r = call(lambda: fresh_loader().assert_directory_verifies(op.get('sub', '')))
                    results.append(r)
                    if v.kind == 'CHAIN' and only_unauthentic_second_references(sc, v) and (
                            r[0] != 'ok' or all(not psw(c, op.get('sub', '')) for c in v.chain)):
                        # see the single-path case below; a failure of any class is fine, success only if the
                        # contradicted MANIFEST entry lies outside the verified directory
                        zn = 'sub-manifest-matches-one-parent-entry-not-another'
                        zones[zn] = zones.get(zn, 0) + 1
                        broken_any += 1
                        outcome.append(['dir', op.get('sub', ''), v.kind, r[0], r[1] if r[0] != 'ok' else repr(r[1])])
                        continue
                    vs, zone = check_strict_verify(v, r, 'assert_directory_verifies(%r)' % op.get('sub', ''))
                    violations += vs
                    if zone:
                        zones[zone] = zones.get(zone, 0) + 1
                    if v.kind == 'CHAIN':
                        broken_any += 1
                    counters['dir.' + v.kind] = counters.get('dir.' + v.kind, 0) + 1
                    outcome.append(['dir', op.get('sub', ''), v.kind, r[0], r[1] if r[0] != 'ok' else repr(r[1])])
                    continue
                v = Verdict()
                if api == 'find_dist_entry':
                    key = op.get('rel', '') + '/'
                    loaded = model.load_chain(key, v, recursive=False)
                else:
                    key = op['path']
                    loaded = model.load_chain(key, v, recursive=False)
                ld = lambda _tp: fresh_loader()
                if api == 'find_path_entry':
                    r = call(lambda: entry_view(ld(top_path).find_path_entry(op['path'])))
                elif api == 'verify_path':
                    r = call(lambda: ld(top_path).verify_path(op['path'])[0])
                elif api == 'assert_path_verifies':
                    r = call(lambda: ld(top_path).assert_path_verifies(op['path']))
                else:
                    r = call(lambda: entry_view(ld(top_path).find_dist_entry(op['name'], op.get('rel', ''))))
            results.append(r)
            what = '%s(%r)' % (api, op.get('path', op.get('name')))
            counters[api] = counters.get(api, 0) + 1
            outcome.append([api, op.get('path', op.get('name')), bool(v.chain), r[0], r[1] if r[0] != 'ok' else repr(r[1])[:80]])
            if r[0] == 'INTERNAL':
                continue
            if model.trailing:
                zones['compressed-manifest-with-trailing-data'] = zones.get('compressed-manifest-with-trailing-data', 0) + 1
                continue
            if v.kind == 'FAIL-ANY':
                if r[0] == 'ok':
                    violations.append(viol('chain.top-unusable-but-result', '%s returned %r' % (what, r[1])))
                continue
            if r[0] == 'GE' and r[1] == 'UnsupportedHash' and (v.unsupported or 'unsupported-hash' in v.chain_why.values()):
                # an entry on the way carries a hash this installation cannot compute: refusing is the required answer
                zones['unsupported-hash-in-entry'] = zones.get('unsupported-hash-in-entry', 0) + 1
                if v.chain:
                    broken_any += 1
                continue
            if r[0] == 'GE' and r[1] == 'ManifestMismatch' and r[2].path in v.bad_refs:
                # a Manifest accepted through one parent's entry fails the entry another accepted Manifest holds for
                # it; whether that second entry is compared depends on what the loader had loaded before
                zones['wrong-second-manifest-reference'] = zones.get('wrong-second-manifest-reference', 0) + 1
                if v.chain:
                    broken_any += 1
                continue
            if v.chain:
                broken_any += 1
                counters[api + '.through-broken-link'] = counters.get(api + '.through-broken-link', 0) + 1
                if r[0] == 'GE' and r[1] == 'ManifestMismatch' and r[2].path in v.chain:
                    continue
                if 'manifest-beneath-file' in v.zones and r[0] == 'OS':
                    continue
                if only_unauthentic_second_references(sc, v):
                    # matched the entry of one accepted parent Manifest, and the entry it fails is held by a Manifest at or
                    # below the level from which the attacker recomputes (a consistent attacker would have rewritten that
                    # one too - outside the quantifier), or the top itself was rewritten: nothing authentic is contradicted.
                    # Whether gemato compares such a second entry depends on the loader's earlier calls (pass alignment)
                    zones['sub-manifest-matches-one-parent-entry-not-another'] = zones.get('sub-manifest-matches-one-parent-entry-not-another', 0) + 1
                    continue
                violations.append(viol('chain.not-detected',
                                       '%s: its chain passes the broken link %r but gemato %s' % (what, v.chain, describe(r)),
                                       sig='%s:%s' % (api, r[0] if r[0] != 'ok' else 'returned')))
                continue
            # chain intact for this path: results must equal the model's
            if api == 'find_path_entry':
                me, _ = model_lookup(model, loaded, op['path'])
                if r[0] != 'ok' or r[1] != model_entry_view(me):
                    violations.append(viol('lookup.wrong-entry', '%s: gemato %s, model %r' % (what, describe(r), model_entry_view(me)), sig=api))
            elif api in ('verify_path', 'assert_path_verifies'):
                me, _ = model_lookup(model, loaded, op['path'])
                fi = probe(os.path.join(w.root, op['path']))
                if me is None:
                    good = not fi.exists
                elif me['tag'] == 'IGNORE':
                    good = True
                else:
                    good = entry_matches(fi, me) is None
                if api == 'verify_path':
                    if r[0] != 'ok' or r[1] is not good:
                        violations.append(viol('lookup.wrong-verdict', '%s: gemato %s, model %r' % (what, describe(r), good), sig=api))
                else:
                    okk = (r[0] == 'ok') if good else (r[0] == 'GE' and r[1] == 'ManifestMismatch')
                    if not okk:
                        violations.append(viol('lookup.wrong-verdict', '%s: gemato %s, model %r' % (what, describe(r), good), sig=api))
            else:
                found = None
                for mp in sorted(loaded, key=lambda k: -len(os.path.dirname(k))):
                    if not psw(op.get('rel', ''), os.path.dirname(mp)):
                        continue
                    for e in loaded[mp]:
                        if e['tag'] == 'DIST' and e['path'] == op['name'] and found is None:
                            found = e
                if r[0] != 'ok' or r[1] != model_entry_view(found):
                    violations.append(viol('lookup.wrong-entry', '%s rel=%r: gemato %s, model %r' % (what, op.get('rel'), describe(r), model_entry_view(found)), sig=api))
        violations += internal_violations(results)
        violations += write_violations(seam, snap0, w.snapshot(with_mtime=False), 'verification/lookup')
    counters['probes_through_broken_link'] = broken_any
    return mk_result([seam], violations, broken_any > 0, outcome=outcome, dontcare=zones,
                     counters=counters, ops=len(sc.get('ops', [])))
