"""C01 Recursive verification accepts exactly the trees that match their
Manifests.

World: consistent-by-construction tree + Manifest layout, then 0-4 storage
corruptions; every directory listing permuted by the seam; mtimes stamped from
the simulated clock and placed around last_mtime.  Oracle: M-verify
(sim/model.py) reading the same store independently.
"""
import os

from gemato.recursiveloader import ManifestRecursiveLoader

from .. import gen_tree as GT
from ..common import call, mk_result, run_cli, viol, internal_violations
from ..model import Model, cli_discovers_root_top
from ..oracles import check_strict_verify, check_cli_agrees, write_violations
from ..seam import Seam
from ..world import World, blocking_manifest

ID = 'C01'
LEVEL = 'exploration'
RULE = ('each run = one generated tree + Manifest layout (nesting, several Manifests per directory, '
        '5 compression formats, all file-entry tags, duplicate entries, IGNOREs incl. look-alike '
        'prefixes, hostile names, symlinks) + 0-4 storage corruptions + a keyed permutation of every '
        'directory listing, of the worker pool\'s completion order and (half of the runs) short raw reads + 1-3 verify operations (library strict handler and CLI, sub-paths, '
        'last_mtime values); non-trivial = at least one corruption was applied or a last_mtime was '
        'given or a sub-path verified, and the model verdict was not a don\'t-care zone; distinct = '
        'distinct seam event-log digest')
PLAN = {'quick': {'n': 12000, 'budget_s': 90, 'block': 40},
        'thorough': {'n': 800000, 'budget_s': 2400, 'block': 200}}
ASSUMPTIONS = ['M-verify (sim/model.py) is the reference reading of "matches"; its don\'t-care zones are counted in evidence',
               'enumeration order, mtimes and clock are owned by the seam; the byte store is a real tmpfs']


def generate(rng, tier, idx, keep_going=False):
    top = 'Manifest' if rng.random() < 0.9 else rng.choice(['Manifest.gz', 'Manifest.xz'])
    g = GT.gen_tree(rng, {'top': top, 'p_style': 0.12, 'p_listed_hidden': 0.4, 'p_wrong_dup': 0.12, 'p_second_manifest_ref': 0.2, 'p_second_manifest_ref_wrong': 0.4})
    info = g['info']
    r = rng.random()
    nm = 0 if r < 0.25 else rng.choice([1, 1, 1, 2, 2, 3, 4])
    muts = GT.gen_mutations(rng, info, nm)
    if rng.random() < 0.04:
        # an IGNOREd directory and a LISTED directory whose name merely extends the ignored one as a string (zq / zql); the
        # listed one is missing entirely - IGNORE matches whole path components, the missing files have to be reported
        topm_ = [m_ for m_ in g['manifests'] if m_['p'] == top]
        if topm_ and not any(t_['p'].split('/')[0] in ('zq', 'zql') for t_ in g['tree']):
            g['tree'].append({'p': 'zq/ignored-file', 'k': 'file', 'c': 'not covered on purpose'})
            topm_[0]['entries'].append({'tag': 'IGNORE', 'path': 'zq'})
            topm_[0]['entries'].append({'tag': 'DATA', 'path': rng.choice(['zql/inner', 'zq-extra/a/b', 'zq.d/f']), 'size': 3, 'sums': {}})
    if rng.random() < 0.05:
        # two Unicode spellings of "the same" name: the Manifest lists the file under one normalisation form (with its true
        # size and digest), the directory holds it under the other - to gemato these are two names: one listed file is
        # missing and one file is stray
        import hashlib as _hl
        import unicodedata as _ud
        topm_ = [m_ for m_ in g['manifests'] if m_['p'] == top]
        d_ = rng.choice([''] + [d for d in info['view_dirs'] if d and not any(c.startswith('.') for c in d.split('/'))][:3])
        base_ = rng.choice(['caf\u00e9.txt', '\u00c5ngstr\u00f6m', 'na\u00efve.dat'])
        a_, b_ = _ud.normalize('NFC', base_), _ud.normalize('NFD', base_)
        if rng.random() < 0.5:
            a_, b_ = b_, a_
        c_ = 'spelled twice'
        if topm_ and not any(t_['p'] in ((d_ + '/' if d_ else '') + a_, (d_ + '/' if d_ else '') + b_) for t_ in g['tree']):
            g['tree'].append({'p': (d_ + '/' if d_ else '') + a_, 'k': 'file', 'c': c_})
            topm_[0]['entries'].append({'tag': 'DATA', 'path': (d_ + '/' if d_ else '') + b_, 'size': len(c_),
                                        'sums': {'SHA256': _hl.sha256(c_.encode()).hexdigest()}})
    ops = []
    subs = [''] + [d for d in info['view_dirs'] if d]
    for _ in range(rng.choice([1, 1, 2, 3])):
        sub = '' if rng.random() < 0.55 else rng.choice(subs)
        lm = None
        if rng.random() < 0.3:
            lm = rng.choice([-4, -3, -2, -1, 0, 1, 2, 3]) + rng.choice([0, 0, 0.5])
        api = 'both' if top == 'Manifest' and rng.random() < 0.6 else 'lib'
        ops.append({'op': 'verify', 'sub': sub, 'last_mtime': lm, 'api': api, 'slash': rng.random() < 0.25})
    for o in ops:
        if o['api'] == 'both' and rng.random() < 0.4:
            # one invocation with several paths from different Manifest trees: a small consistent tree and the tree
            # under test, in either order
            o['multi'] = rng.choice(['first', 'last'])
        if o['api'] == 'both' and rng.random() < 0.35:
            o['kg'] = True      # the same request with --keep-going: the exit status must say the same
    lms = [o['last_mtime'] for o in ops if o.get('last_mtime') is not None]
    if lms and rng.random() < 0.5:
        # same-size tampering stamped shortly AFTER a last_mtime of the run: within the same whole second, the next
        # second, or a microsecond later
        for m in muts:
            if m['m'] == 'flip' and rng.random() < 0.7:
                m.pop('keep_mtime', None)
                m['mt'] = int((rng.choice(lms) + rng.choice([0.000001, 0.3, 0.3, 0.45, 1.0])) * 1e9)
    return {'prop': ID, 'order_key': '%016x' % rng.getrandbits(64), 'top': top,
            'chunks': rng.choice([None, None, None, 'mixed', 'tiny', 4096]),      # raw reads may legally come back short
            'tree': g['tree'], 'manifests': g['manifests'], 'muts': muts, 'ops': ops}


def execute(sc):
    violations = []
    zones = {}
    counters = {}
    outcome = []
    results = []
    with World(sc) as w:
        w.build()
        applied = 0
        applied_kinds = {}
        for m in sc.get('muts', []):
            if w.mutate(m):
                applied += 1
                kk = 'storage.' + m['m'] + ('->' + m['k'] if m['m'] in ('retype', 'add') and 'k' in m else '')
                applied_kinds[kk] = applied_kinds.get(kk, 0) + 1
        if blocking_manifest(w.root):
            seam = Seam(w.root)
            return mk_result([seam], [], False, outcome='skipped: FIFO Manifest', dontcare={'fifo-manifest': 1})
        model = Model(w.root, sc.get('top', 'Manifest'))
        seam = Seam(w.root, order_key=sc['order_key'], virtual_root=True, read_chunks=sc.get('chunks'))
        snap0 = w.snapshot(with_mtime=False)
        judged = 0
        for i, op in enumerate(sc.get('ops', [])):
            sub = op.get('sub', '')
            lm = op.get('last_mtime')
            lm_abs = None if lm is None else (w.epoch_ns / 1e9 + lm)
            v = model.verdict(sub, lm_abs)
            top_path = os.path.join(w.root, sc.get('top', 'Manifest'))
            with seam:
                seam.begin_op(i)

                def lib():
                    m = ManifestRecursiveLoader(top_path)
                    return m.assert_directory_verifies(sub + '/' if (sub and op.get('slash')) else sub, last_mtime=lm_abs)
                r = call(lib)
                cli = None
                real_sub = os.path.realpath(os.path.join(w.root, sub)) == os.path.normpath(os.path.join(w.root, sub))
                if not real_sub:
                    zones['cli-skipped-symlinked-subpath'] = zones.get('cli-skipped-symlinked-subpath', 0) + 1
                if real_sub and sub and not cli_discovers_root_top(w.root, sub):
                    zones['cli-skipped-discovery-obstacle'] = zones.get('cli-skipped-discovery-obstacle', 0) + 1
                    real_sub = False
                if op.get('api') == 'both' and lm is None and real_sub:
                    target = os.path.join(w.root, sub) if sub else w.root
                    cli = run_cli(['verify', target])
                    cli_kg = run_cli(['verify', '--keep-going', target]) if op.get('kg') else None
                    if op.get('multi'):
                        t0 = w.other_tree()
                        cli2 = run_cli(['verify'] + ([target, t0] if op['multi'] == 'first' else [t0, target]))
            results.append(r)
            vs, zone = check_strict_verify(v, r, 'verify(%r,last_mtime=%r)' % (sub, lm))
            violations += vs
            for z in set(v.zones):
                zones[z] = zones.get(z, 0) + 1
            if zone:
                zones['verdict:' + zone] = zones.get('verdict:' + zone, 0) + 1
            else:
                judged += 1
            counters['model.' + v.kind] = counters.get('model.' + v.kind, 0) + 1
            if cli is not None and v.bad_refs:
                zones['cli-skipped-wrong-second-manifest-reference'] = zones.get('cli-skipped-wrong-second-manifest-reference', 0) + 1
            elif cli is not None and v.kind not in ('DONTCARE', 'FAIL-ANY') and 'subpath-under-ignore' not in v.zones:
                if cli['kind'] == 'INTERNAL':
                    results.append(('INTERNAL', cli['name'], cli['exc']))
                violations += check_cli_agrees(r, cli, 'verify %r' % sub)
                counters['cli'] = counters.get('cli', 0) + 1
                if op.get('kg') and cli_kg is not None and cli_kg.get('kind') == 'ok' and cli.get('kind') == 'ok' and cli_kg.get('rc') != cli.get('rc'):
                    violations.append(viol('cli.disagrees', 'verify %r: exit status %r, with --keep-going %r' % (sub, cli.get('rc'), cli_kg.get('rc')), sig='keep-going'))
                if op.get('kg'):
                    counters['cli-keep-going'] = counters.get('cli-keep-going', 0) + 1
                if op.get('multi'):
                    violations += check_cli_agrees(r, cli2, 'verify %r with a second, consistent tree on the same command line (%s)' % (sub, op['multi']))
                    counters['cli-multi-path'] = counters.get('cli-multi-path', 0) + 1
            outcome.append([v.kind, r[0], r[1] if r[0] != 'ok' else repr(r[1]),
                            (cli or {}).get('rc')])
        violations += internal_violations(results)
        violations += write_violations(seam, snap0, w.snapshot(with_mtime=False), 'verify')
    nontrivial = judged > 0 and (applied > 0 or any(o.get('last_mtime') is not None or o.get('sub') for o in sc.get('ops', [])))
    counters['mutations_applied'] = applied
    _res_faults = applied_kinds
    if seam.stats.get('leaked_fds'):
        violations.append(viol('verify.descriptor-leak', '%d file descriptor(s) opened by the verification were never closed' % seam.stats['leaked_fds'], sig='fd'))
    res = mk_result([seam], violations, nontrivial, outcome=outcome, dontcare=zones,
                    counters=counters, ops=len(sc.get('ops', [])))
    for k_, v_ in _res_faults.items():
        res['faults_fired'][k_] = res['faults_fired'].get(k_, 0) + v_
    return res
