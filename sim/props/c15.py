"""C15 Top-level Manifest discovery returns the outermost covering Manifest.

World: a directory chain l0/../l6 below a virtual filesystem root (the seam
answers os.stat('/') with the world base), a Manifest (plain and/or one
compressed name) present or absent per level, IGNORE entries naming the start
path / an ancestor of it / a sibling / a string-prefix look-alike, and - only
possible at the seam - a device boundary at any level (directory and/or the
Manifest file itself on another device).  Oracle: M-find, an independent
upward walk.
"""
import os

from gemato.find_top_level import find_top_level_manifest

from .. import grammar as G
from ..common import call, mk_result, viol, internal_violations
from ..model import psw, m_find, dev_of_rel as dev_of, MANIFEST_NAMES as NAMES
from ..oracles import describe, write_violations
from ..seam import Seam, orig as _o
from ..world import World

ID = 'C15'
LEVEL = 'exploration'
RULE = ('each run = directory chain of depth 1-7 under a virtual root, per-level Manifest presence '
        '(absent/plain/gz/bz2/lzma/xz/plain+compressed), IGNORE entries (start path, ancestor, sibling, '
        'look-alike), device boundaries from the seam\'s mount table (directory and/or Manifest file), '
        'and 2-5 discovery calls (start depth, allow_compressed, allow_xdev); non-trivial = at least one '
        'Manifest exists on the way up; distinct = distinct seam event-log digest')
PLAN = {'quick': {'n': 20000, 'budget_s': 90, 'block': 50},
        'thorough': {'n': 1000000, 'budget_s': 2400, 'block': 250}}
ASSUMPTIONS = ['when a plain and a compressed Manifest exist in the same directory either may be named (statement silent)',
               'no error faults: the statement says nothing about unreadable Manifests during discovery']



def generate(rng, tier, idx):
    depth = rng.randrange(1, 8)
    comps = ['l%d' % i for i in range(depth)]
    if rng.random() < 0.3:
        comps = [rng.choice(['foo', 'foobar', 'foo.d', 'a b', 'x']) + ('%d' % i if rng.random() < 0.5 else '')
                 for i in range(depth)]
        # keep names unique per level irrelevant (they nest)
    dirs = ['/'.join(comps[:i + 1]) for i in range(depth)]
    tree = [{'p': dirs[-1], 'k': 'dir'}]
    manifests = []
    levels = [''] + dirs
    for li, d in enumerate(levels):
        r = rng.random()
        if r < 0.45:
            continue
        names = [rng.choice(NAMES)] if r < 0.9 else ['Manifest', rng.choice(NAMES[1:])]
        for nm in sorted(set(names)):
            ents = []
            if rng.random() < 0.5 and li < len(levels) - 1:
                # IGNORE something relative to this directory - one entry, or several whose paths sort around each
                # other (an ancestor of the start plus siblings, look-alikes and things below it)
                below = levels[li + 1:]
                for _ in range(rng.choice([1, 1, 1, 2, 3, 4])):
                    k = rng.choice(['start-ish', 'start-ish', 'child', 'sibling', 'lookalike', 'deep', 'below-other', 'sorts-between'])
                    tgt = rng.choice(below)
                    rel = os.path.relpath(tgt, d or '.')
                    if k == 'sibling':
                        rel = rel + '-sib'
                    elif k == 'lookalike':
                        rel = rel[:-1] if len(rel) > 1 else rel + 'x'
                    elif k == 'deep':
                        rel = rel + '/deeper'
                    elif k == 'below-other':
                        rel = rel + '/' + rng.choice(['!x', '0sib', 'Zother', 'a'])
                    elif k == 'sorts-between':
                        rel = rel + rng.choice(['-old', '.bak', ' 2', '+'])
                    if not any(e['path'] == rel for e in ents):
                        ents.append({'tag': 'IGNORE', 'path': rel})
                rng.shuffle(ents)
            if rng.random() < 0.3:
                ents.append({'tag': 'DATA', 'path': 'somefile', 'size': 0, 'sums': {}})
            if rng.random() < 0.25:
                # a TIMESTAMP at any level (a nested repository, a sub-Manifest once written with --timestamp)
                ents.insert(rng.randrange(len(ents) + 1), {'tag': 'TIMESTAMP', 'ts': '2020-01-01T00:00:00Z'})
            manifests.append({'p': (d + '/' if d else '') + nm, 'entries': ents})
    mounts = {}
    r = rng.random()
    if r < 0.4 and dirs:
        mounts[rng.choice(dirs)] = 2001
        if rng.random() < 0.3:
            mounts[rng.choice(dirs)] = 2002
    if rng.random() < 0.15 and manifests:
        mounts[rng.choice(manifests)['p']] = 2003
    link_manifests = []
    if rng.random() < 0.2 and manifests:
        # a Manifest that is a symlink to a file kept on another filesystem
        link_manifests = [rng.choice(manifests)['p']]
        mounts['.xfs'] = 2004
    ops = []
    for _ in range(rng.randrange(2, 6)):
        ops.append({'start': rng.choice(levels), 'allow_compressed': rng.random() < 0.5,
                    'allow_xdev': rng.random() < 0.5})
        if rng.random() < 0.3:
            # the start path spelled relative to a working directory somewhere on the chain ('.', '..', 'a/b', '../c')
            ops[-1]['cwd'] = rng.choice(levels)
    return {'prop': ID, 'order_key': '%016x' % rng.getrandbits(64), 'tree': tree,
            'manifests': manifests, 'mounts': mounts, 'ops': ops, 'link_manifests': link_manifests}


def execute(sc):
    violations = []
    counters = {}
    outcome = []
    results = []
    with World(sc, subdir='unused') as w:
        base = w.base
        for spec in sc.get('tree', []):
            w.put(spec, root=base)
        for m in sc.get('manifests', []):
            w.write_manifest(m, root=base)
        for k_, lp in enumerate(sc.get('link_manifests', [])):
            src = os.path.join(base, lp)
            if os.path.isfile(src) and not os.path.islink(src):
                os.makedirs(os.path.join(base, '.xfs'), exist_ok=True)
                dst = os.path.join(base, '.xfs', 'm%d-%s' % (k_, os.path.basename(lp)))
                os.rename(src, dst)
                os.symlink(os.path.relpath(dst, os.path.dirname(src)), src)
        mounts = dict(sc.get('mounts', {}))
        seam = Seam(base, order_key=sc['order_key'], mounts=mounts, default_dev=1001, virtual_root=True)
        snap0 = w.snapshot(root=base)
        any_manifest = bool(sc.get('manifests'))
        # every run starts from the same call history: one lookup with compressed names allowed and one without
        # (a result must not depend on which lookups the process has served before)
        with seam:
            seam.begin_op(-1, step_cap=400)
            call(find_top_level_manifest, base, allow_xdev=True, allow_compressed=True)
            call(find_top_level_manifest, base, allow_xdev=True, allow_compressed=False)
        for i, op in enumerate(sc.get('ops', [])):
            start = op['start']
            if not os.path.isdir(os.path.join(base, start)):
                continue
            want = m_find(base, mounts, start, op['allow_compressed'], op['allow_xdev'])
            arg = os.path.join(base, start) if start else base
            old_cwd = None
            if op.get('cwd') is not None and os.path.isdir(os.path.join(base, op['cwd'])):
                old_cwd = os.getcwd()
                cwd_abs = os.path.join(base, op['cwd']) if op['cwd'] else base
                os.chdir(cwd_abs)
                arg = os.path.relpath(arg, cwd_abs)
                counters['relative_start_paths'] = counters.get('relative_start_paths', 0) + 1
            try:
                with seam:
                    seam.begin_op(i, step_cap=400)
                    r = call(find_top_level_manifest, arg,
                             allow_xdev=op['allow_xdev'], allow_compressed=op['allow_compressed'])
            finally:
                if old_cwd is not None:
                    os.chdir(old_cwd)
            if r[0] == 'ok' and r[1] is not None and old_cwd is not None and not os.path.isabs(r[1]):
                r = ('ok', os.path.join(cwd_abs, r[1]))
            results.append(r)
            if r[0] == 'INTERNAL':
                continue
            got = None
            if r[0] == 'ok' and r[1] is not None:
                got = os.path.relpath(os.path.normpath(r[1]), base)
            outcome.append([start, op['allow_compressed'], op['allow_xdev'], r[0], got, sorted(map(str, want))])
            counters['found' if got else 'none'] = counters.get('found' if got else 'none', 0) + 1
            if r[0] != 'ok':
                violations.append(viol('find.raised', 'find_top_level_manifest(%r, %r) %s' % (start, op, describe(r)), sig='%s:%s' % (r[0], r[1])))
            elif got not in want:
                cl = 'find.wrong-manifest'
                if got is not None and dev_of(mounts, got) != dev_of(mounts, start or '.') and not op['allow_xdev']:
                    cl = 'find.crossed-device'
                elif got is not None and G.comp_of(got) and not op['allow_compressed']:
                    cl = 'find.compressed-not-allowed'
                violations.append(viol(cl, 'start=%r allow_compressed=%s allow_xdev=%s: returned %r, model %r (mounts %r)' % (
                    start, op['allow_compressed'], op['allow_xdev'], got, sorted(map(str, want)), mounts), sig=cl))
        violations += internal_violations(results)
        violations += write_violations(seam, snap0, w.snapshot(root=base), 'discovery')
    return mk_result([seam], violations, any_manifest, outcome=outcome, counters=counters, ops=len(sc.get('ops', [])))
