"""C05 A signature is accepted only if good, valid, trusted, unexpired and
unrevoked.

Two simulated peers (sim/gpgsim.py).  (1) An in-process fake gpg emits a drawn
sequence over gpg's real status vocabulary with loss, duplication, reordering,
any exit status, truncated stdout, non-UTF-8 stderr or a missing binary.
(2) Real gpg 2.2 behind the fault proxy: committed test keys in states valid /
expiring / revoked / unknown signer / other key / subkey with and without
binding, every owner-trust level, the peer's clock jumped across the key's
expiry, flipped signed bytes, every content of the user's own GNUPGHOME while
an isolated environment is in use, CLI flag combinations -s / -P / -K.
"""
import io
import os

import gemato.manifest
import gemato.openpgp
from gemato.openpgp import SystemGPGEnvironment, IsolatedGPGEnvironment

from .. import gpgsim as GS
from ..common import call, run_cli, mk_result, viol
from ..oracles import describe
from ..seam import Seam
from ..world import World

ID = 'C05'
LEVEL = 'exploration'
NEEDS_GPG = True
RULE = ('each run is (a) a fake-peer run: a status sequence drawn from gpg\'s vocabulary (good / expired-key / revoked-key / '
        'bad / error / expired-signature shapes) with 0-3 line faults (drop, duplicate, swap, insert, garbage), an exit '
        'status, optional stdout truncation / missing binary / non-UTF-8 stderr, fed to verify_file and ManifestFile.load '
        '(35%: also as the second load of a ManifestFile object that had accepted a signature before); '
        'or (b) a real-gpg run: key state x owner-trust level x peer clock x flipped signed byte x user-GNUPGHOME content '
        'x API (library, CLI with -K/-s/-P) x process fault (exit status, signal, truncated/no output); non-trivial = a '
        'fault, a non-default key state/trust/clock or a mutation was in play; distinct = distinct outcome digest')
PLAN = {'quick': {'n': 6000, 'budget_s': 90, 'block': 25, 'det': 3},
        'thorough': {'n': 300000, 'budget_s': 2400, 'block': 100, 'det': 4}}
ASSUMPTIONS = ['sequences with contradictory reports (several signatures: GOODSIG together with BADSIG/ERRSIG/EXPSIG, or accepting and rejecting TRUST_ lines) are a don\'t-care zone',
               'real-gpg runs log verdict classes only (no key material, fingerprints or times)']
COMPONENTS_REAL = ['gpg 2.2.40 and gpgconf (real binaries) behind sim/gpgproxy in real-peer runs']
COMPONENTS_STUB = ['gpg subprocess replaced by an in-process scripted peer in fake-peer runs',
                   'peer clock: gpg --faked-system-time via the proxy']

FPR = 'A' * 40
PK = 'B' * 40
KID = 'A' * 16
L = {
    'NEWSIG': 'NEWSIG',
    'KC': 'KEY_CONSIDERED %s 0' % FPR,
    'SIG_ID': 'SIG_ID abcDEF 2020-03-01 1583020800',
    'GOODSIG': 'GOODSIG %s verif signer <signer@example.com>' % KID,
    'BADSIG': 'BADSIG %s verif signer <signer@example.com>' % KID,
    'ERRSIG': 'ERRSIG %s 22 8 00 1583020800 9 %s' % (KID, FPR),
    'EXPSIG': 'EXPSIG %s verif signer <signer@example.com>' % KID,
    'EXPKEYSIG': 'EXPKEYSIG %s verif signer <signer@example.com>' % KID,
    'REVKEYSIG': 'REVKEYSIG %s verif signer <signer@example.com>' % KID,
    'VALIDSIG': 'VALIDSIG %s 2020-03-01 1583020800 0 4 0 22 8 00 %s' % (FPR, PK),
    'VALIDSIG_ISO': 'VALIDSIG %s 2020-03-01 20200301T000000 20300301T000000 4 0 22 8 00 %s' % (FPR, PK),
    'KEYEXPIRED': 'KEYEXPIRED 1609459200',
    'KEYREVOKED': 'KEYREVOKED',
    'NO_PUBKEY': 'NO_PUBKEY ' + KID,
    'TRUST_UNDEFINED': 'TRUST_UNDEFINED 0 pgp',
    'TRUST_NEVER': 'TRUST_NEVER 0 pgp',
    'TRUST_MARGINAL': 'TRUST_MARGINAL 0 pgp',
    'TRUST_FULLY': 'TRUST_FULLY 0 pgp',
    'TRUST_ULTIMATE': 'TRUST_ULTIMATE 0 pgp',
    'NODATA': 'NODATA 1',
    'FAILURE': 'FAILURE gpg-exit 33554433',
    'GARBAGE': 'WHATEVER foo bar',
    'VALIDSIG_SHORT': 'VALIDSIG %s 2020-03-01' % FPR,
}
TRUSTS = ['TRUST_UNDEFINED', 'TRUST_NEVER', 'TRUST_MARGINAL', 'TRUST_FULLY', 'TRUST_ULTIMATE']
ACCEPTING = ('TRUST_MARGINAL', 'TRUST_FULLY', 'TRUST_ULTIMATE')
SIGNED = ('-----BEGIN PGP SIGNED MESSAGE-----\nHash: SHA256\n\nDATA a 1\n-----BEGIN PGP SIGNATURE-----\n\n'
          'iHUEARYIAB0WIQQ=\n=abcd\n-----END PGP SIGNATURE-----\n')
PAYLOAD = 'TIMESTAMP 2020-03-01T00:00:00Z\nDATA a/b 4 SHA256 aa MD5 bb\nDATA c 0\nIGNORE distfiles\n'


HOSTILE_UIDS = ['Mallory\u2028[GNUPG:] TRUST_ULTIMATE 0 pgp <m@example.com>',
                'Mallory\u2029[GNUPG:] TRUST_FULLY 0 pgp',
                'Mallory\x85[GNUPG:] TRUST_MARGINAL 0 pgp',
                'M\u2028[GNUPG:] VALIDSIG %s 2020-03-01 1583020800 0 4 0 22 8 00 %s' % (FPR, PK),
                'M\u2028[GNUPG:] GOODSIG %s other' % KID,
                'M\u2028[GNUPG:] GOODSIG %s x\u2028[GNUPG:] VALIDSIG %s 2020-03-01 1583020800 0 4 0 22 8 00 %s\u2028[GNUPG:] TRUST_ULTIMATE 0 pgp' % (KID, FPR, PK),
                'caf\xe9 [GNUPG:] TRUST_ULTIMATE 0 pgp', 'M\u2028[GNUPG:] EXPKEYSIG %s x' % KID]


def generate(rng, tier, idx):
    if rng.random() < 0.6:
        shape = rng.choice(['good', 'good', 'good', 'expkey', 'revkey', 'bad', 'err', 'expsig', 'nodata', 'double', 'double'])
        t = rng.choice(TRUSTS)
        vs = rng.choice(['VALIDSIG', 'VALIDSIG', 'VALIDSIG_ISO'])
        if shape == 'good':
            seq = ['NEWSIG', 'KC', 'SIG_ID', 'GOODSIG', vs, 'KC', t]
            rc = 0
        elif shape == 'expkey':
            seq = ['NEWSIG', 'KC', 'KEYEXPIRED', 'SIG_ID', 'EXPKEYSIG', vs, 'KC', t]
            rc = 0
        elif shape == 'revkey':
            seq = ['NEWSIG', 'KC', 'KEYREVOKED', 'SIG_ID', 'REVKEYSIG', vs, 'KC', t]
            rc = 0
        elif shape == 'bad':
            seq = ['NEWSIG', 'KC', 'BADSIG']
            rc = 1
        elif shape == 'err':
            seq = ['NEWSIG', 'ERRSIG', 'NO_PUBKEY', 'FAILURE']
            rc = 2
        elif shape == 'expsig':
            seq = ['NEWSIG', 'KC', 'SIG_ID', 'EXPSIG', vs, t]
            rc = 0
        elif shape == 'double':
            # two signatures on one message, as gpg reports them (exit 0 unless one is bad)
            second = rng.choice(['EXPKEYSIG', 'REVKEYSIG', 'GOODSIG', 'BADSIG', 'EXPKEYSIG', 'REVKEYSIG'])
            first = ['NEWSIG', 'KC', 'SIG_ID', 'GOODSIG', vs, 'KC', rng.choice(ACCEPTING)]
            sec = ['NEWSIG', 'KC'] + (['KEYEXPIRED'] if second == 'EXPKEYSIG' else ['KEYREVOKED'] if second == 'REVKEYSIG' else []) + \
                  ['SIG_ID', second] + ([vs, 'KC', t] if second != 'BADSIG' else [])
            seq = (first + sec) if rng.random() < 0.7 else (sec + first)
            rc = 1 if second == 'BADSIG' else 0
        else:
            seq = ['NODATA', 'FAILURE']
            rc = 2
        nf = rng.choice([0, 0, 1, 1, 2, 3])
        for _ in range(nf):
            k = rng.choice(['drop', 'dup', 'swap', 'insert', 'insert', 'garbage'])
            if k == 'drop' and seq:
                del seq[rng.randrange(len(seq))]
            elif k == 'dup' and seq:
                i = rng.randrange(len(seq))
                seq.insert(i, seq[i])
            elif k == 'swap' and len(seq) > 1:
                i = rng.randrange(len(seq) - 1)
                seq[i], seq[i + 1] = seq[i + 1], seq[i]
            elif k == 'insert':
                seq.insert(rng.randrange(len(seq) + 1), rng.choice(list(L)))
            else:
                seq.insert(rng.randrange(len(seq) + 1), 'GARBAGE')
        if rng.random() < 0.25:
            rc = rng.choice([0, 0, 1, 2, 33, -9, -15, 255])
        sc = {'prop': ID, 'mode': 'fake', 'seq': seq, 'rc': rc, 'order_key': '0'}
        if rng.random() < 0.2:
            # the user id of the key (free text chosen by whoever made the key; gpg escapes only control characters and
            # '%' in it) carries a character that some line splitters take for a line end, followed by text that looks
            # like a status line
            sc['uid'] = rng.choice(HOSTILE_UIDS)
        if rng.random() < 0.35:
            # history on one ManifestFile object: an accepted signature first, then this load on the SAME object
            sc['reload'] = rng.choice(['script', 'script', 'unsigned', 'noverify'])
        r = rng.random()
        if r < 0.1:
            sc['trunc'] = rng.randrange(0, 400)
        elif r < 0.14:
            sc['missing'] = True
        elif r < 0.22:
            sc['stderr_nonutf'] = True
        return sc
    if rng.random() < 0.08:
        return {'prop': ID, 'mode': 'sub', 'order_key': '0', 'sub_kind': rng.choice(['good', 'tampered', 'tampered', 'unknown-signer']),
                'pos': rng.choice([None, rng.randrange(0, 60)]), 'sub_op': rng.choice(['verify', 'lookup'])}
    key = rng.choice(['signer', 'signer', 'signer', 'expiring', 'expiring', 'revoked', 'unknown', 'other-only',
                      'subkey', 'subkey-forged', 'subkey-unsigned'])
    sc = {'prop': ID, 'mode': 'real', 'key': key, 'order_key': '0',
          'trust': rng.choice([None, None, 2, 3, 4, 5, 6]),
          'peer_time': rng.choice([None, None, GS.BEFORE_EXPIRY, GS.AFTER_EXPIRY]),
          'api': rng.choice(['lib', 'lib', 'cli', 'cli-s', 'cli-P', 'cli-sP', 'cli-nokey', 'cli-unsigned-s']),
          'user_home': rng.choice(['empty', 'signer-ultimate', 'others']),
          'fault': rng.choice([None] * 8 + ['exit1', 'exit2', 'kill', 'term', 'nooutput', 'garbage', 'nostatus', 'trunc:40',
                                           'trunc:150', 'stderr-nonutf', 'missing'])}
    if rng.random() < 0.25:
        sc['proxy'] = 'http://127.0.0.1:9'      # an HTTP proxy configured for key refreshes (never contacted: no refresh is made)
    if key.startswith('subkey'):
        sc['api'] = 'lib'      # the repository's signed sample names files we do not have
        sc['trust'] = None
    if rng.random() < 0.3:
        sc['flip'] = [rng.randrange(0, 400), rng.choice('abcdefgh0123456789XYZ')]
        if rng.random() < 0.3:
            # a line feed of the signed text replaced by another "line boundary"-like character
            sc['flip'] = [rng.randrange(0, 400), rng.choice(['\x0b', '\x0c', '\x1c', '\x1d', '\x1e', '\x85', '\u2028', '\u2029', '\x00']), 'lf']
    elif rng.random() < 0.1:
        sc['ws'] = rng.randrange(0, 10)
    if sc['api'] == 'lib' and key != 'other-only' and rng.random() < 0.35:
        # call history on one environment object: after the scenario's key (and its owner-trust) an unrelated key is
        # imported as trusted - that must not change how the first one counts
        sc['second_import'] = True
    if sc['api'] == 'lib':
        # the same message through `gemato openpgp-verify`: alone, from stdin, or beside the genuine message on one command line
        sc['opv'] = rng.choice(['single', 'stdin', 'good-first', 'bad-first'])
    return sc


def model_fake(lines, rc):
    """M-accept over what gemato can see (complete and partial lines)."""
    names = []
    for l in lines:
        sp = l.split(' ')
        if not sp or sp[0] != '[GNUPG:]' or len(sp) < 2:
            continue
        names.append((sp[1], sp))
    has = lambda n: any(x == n for x, _ in names)
    valid = [sp for x, sp in names if x == 'VALIDSIG']
    valid_ok = [sp for sp in valid if len(sp) >= 12]
    trusts = [x for x, _ in names if x.startswith('TRUST_')]
    acc = [t for t in trusts if t in ACCEPTING]
    rej = [t for t in trusts if t not in ACCEPTING]
    dontcare = None
    if has('GOODSIG') and (has('BADSIG') or has('ERRSIG') or has('EXPSIG')):
        dontcare = 'contradictory-signature-reports'
    if acc and rej:
        dontcare = 'contradictory-trust-reports'
    if len(valid) > 1:
        dontcare = 'several-validsig'
    accept = (rc == 0 and has('GOODSIG') and bool(valid_ok) and len(valid_ok) == len(valid) and bool(acc)
              and not has('EXPKEYSIG') and not has('REVKEYSIG'))
    # the don't-care zones only ever excuse a rejection: an expired-key or revoked-key
    # report, a non-zero exit or a missing good/valid report forces rejection whatever
    # else the sequence contains
    if has('EXPKEYSIG') or has('REVKEYSIG') or rc != 0 or not has('GOODSIG') or not valid_ok or not acc:
        dontcare = None
    return accept, dontcare


def exec_fake(sc):
    violations = []
    counters = {}
    status = [L[k] for k in sc['seq']]
    if sc.get('uid'):
        status = [l.replace('verif signer <signer@example.com>', sc['uid']) for l in status]
        counters['fake.hostile-user-id'] = 1
    script = {'status': status, 'rc': sc.get('rc', 0)}
    if sc.get('trunc') is not None:
        script['trunc'] = sc['trunc']
    if sc.get('missing'):
        script['missing'] = True
    if sc.get('stderr_nonutf'):
        script['stderr'] = b'gpg: \xff\xfe bad bytes\n'
    raw = b''.join(('[GNUPG:] ' + l + '\n').encode() for l in status)
    if sc.get('trunc') is not None:
        raw = raw[:sc['trunc']]
    lines = raw.decode('utf8', 'replace').split('\n')       # (the peer ends its lines with LF, nothing else)
    if lines and lines[-1] == '':
        lines.pop()
    accept, dontcare = model_fake(lines, sc.get('rc', 0))
    if raw and not raw.endswith(b'\n') and lines and lines[-1].startswith('[GNUPG:] VALIDSIG') and accept:
        # output cut in the middle of the VALIDSIG line, after its 10th argument began: either verdict
        dontcare = 'validsig-cut-mid-line'
    if sc.get('missing'):
        accept, dontcare = False, None
    peer = GS.FakePeer(script)
    with peer:
        env = SystemGPGEnvironment()
        r1 = call(lambda: env.verify_file(io.StringIO(SIGNED)))
        m = gemato.manifest.ManifestFile()
        r2 = call(lambda: m.load(io.StringIO(SIGNED), verify_openpgp=True, openpgp_env=env))
    out = ['fake', accept, dontcare, r1[0], r1[1] if r1[0] != 'ok' else 'data', r2[0], bool(m.openpgp_signed)]
    counters['fake.' + ('accept' if accept else 'reject')] = 1
    zones = {}
    if dontcare:
        zones[dontcare] = 1
    for r in (r1, r2):
        if r[0] == 'INTERNAL':
            violations.append(viol('sig.internal-error', 'status %r rc=%r: %s' % (sc['seq'], sc.get('rc'), describe(r)), sig=r[1]))
    if not dontcare and not violations:
        what = 'status sequence %r exit %r%s' % (sc['seq'], sc.get('rc'), ' truncated at %d' % sc['trunc'] if sc.get('trunc') is not None else '')
        if accept:
            if r1[0] != 'ok' or r1[1] is None:
                violations.append(viol('sig.good-rejected', '%s: verify_file %s' % (what, describe(r1)), sig=str(r1[1])))
            elif r1[1].fingerprint != FPR or r1[1].primary_key_fingerprint != PK:
                violations.append(viol('sig.wrong-data', '%s: fingerprints %r/%r' % (what, r1[1].fingerprint, r1[1].primary_key_fingerprint)))
            if r2[0] != 'ok' or m.openpgp_signed is not True:
                violations.append(viol('sig.good-rejected', '%s: ManifestFile.load %s signed=%r' % (what, describe(r2), m.openpgp_signed), sig='load'))
        else:
            if r1[0] == 'ok':
                violations.append(viol('sig.accepted', '%s: verify_file returned signature data' % what, sig='verify_file'))
            elif r1[0] != 'GE':
                violations.append(viol('sig.wrong-failure', '%s: verify_file %s' % (what, describe(r1)), sig=str(r1[1])))
            if r2[0] == 'ok' or m.openpgp_signed:
                violations.append(viol('sig.accepted', '%s: ManifestFile.load %s, openpgp_signed=%r' % (what, describe(r2), m.openpgp_signed), sig='load'))
            if sc.get('missing') and not (r1[0] == 'GE' and r1[1] == 'OpenPGPNoImplementation'):
                violations.append(viol('sig.wrong-failure', 'missing gpg binary: %s' % describe(r1), sig='missing'))
    if sc.get('reload') and not sc.get('missing'):
        m2 = gemato.manifest.ManifestFile()
        with GS.FakePeer({'status': [L[k] for k in ('NEWSIG', 'KC', 'SIG_ID', 'GOODSIG', 'VALIDSIG', 'KC', 'TRUST_ULTIMATE')], 'rc': 0}):
            env2 = SystemGPGEnvironment()
            ra = call(lambda: m2.load(io.StringIO(SIGNED), verify_openpgp=True, openpgp_env=env2))
            first_ok = ra[0] == 'ok' and m2.openpgp_signed is True
            kind = sc['reload']
            if kind == 'unsigned':
                rb = call(lambda: m2.load(io.StringIO('DATA a 1\n'), verify_openpgp=True, openpgp_env=env2))
                expect = False
            elif kind == 'noverify':
                rb = call(lambda: m2.load(io.StringIO(SIGNED), verify_openpgp=False))
                expect = False
        if kind == 'script':
            with GS.FakePeer(script):
                # the SAME environment object that accepted the text a moment ago (the backend's answer has changed:
                # key revoked or expired in the meantime, another keyring): it must ask again
                rb = call(lambda: m2.load(io.StringIO(SIGNED), verify_openpgp=True, openpgp_env=env2))
                rv = call(lambda: env2.verify_file(io.StringIO(SIGNED)))
            if first_ok and not dontcare and not accept and rv[0] == 'ok':
                violations.append(viol('sig.stale-after-reload', 'the environment that had accepted this text returned signature data again '
                                       'although the backend now reports %r exit %r' % (sc['seq'], sc.get('rc')), sig='env'))
            expect = bool(m.openpgp_signed)       # what a fresh object reports for the same text and the same reports
        counters['reload.' + kind] = 1
        out += ['reload', kind, rb[0], bool(m2.openpgp_signed)]
        if rb[0] == 'INTERNAL':
            violations.append(viol('sig.internal-error', 'reload (%s): %s' % (kind, describe(rb)), sig=rb[1]))
        elif first_ok and not (kind == 'script' and dontcare):
            if bool(m2.openpgp_signed) != expect or (not expect and m2.openpgp_signature is not None):
                violations.append(viol('sig.stale-after-reload',
                                       'a ManifestFile that had loaded an accepted signature was loaded again (%s, status %r exit %r): it '
                                       'reports openpgp_signed=%r signature=%s, a fresh object reports signed=%r' % (
                                           kind, sc['seq'], sc.get('rc'), m2.openpgp_signed,
                                           'kept' if m2.openpgp_signature is not None else 'None', expect), sig=kind))
    nontrivial = not dontcare
    res = mk_result([], violations, nontrivial, outcome=out, dontcare=zones, counters=counters, ops=2,
                    extra_digest=repr(sc['seq']) + repr(sc.get('rc')) + repr(sc.get('trunc')))
    res['faults_fired'] = {'peer.scripted-status': 1}
    if sc.get('trunc') is not None:
        res['faults_fired']['peer.stdout-truncated'] = 1
    if sc.get('missing'):
        res['faults_fired']['peer.binary-missing'] = 1
    if sc.get('rc', 0) not in (0, 1, 2):
        res['faults_fired']['peer.odd-exit-or-signal'] = 1
    return res


def subkey_material():
    """Signed Manifest + key files for the subkey cases come from the repository's own test data."""
    import importlib
    import sys
    repo = os.environ.get('VERIF_REPO', '/repo')
    if repo not in sys.path:
        sys.path.insert(0, repo)
    kd = importlib.import_module('tests.keydata')
    to = importlib.import_module('tests.test_openpgp')
    return kd, to


def flip_text(signed, flip, ws):
    """Mutate one byte of the signed cleartext body (not armor, not signature)."""
    lines = signed.split('\n')
    try:
        start = lines.index('') + 1
        end = lines.index('-----BEGIN PGP SIGNATURE-----')
    except ValueError:
        return signed, False
    body = '\n'.join(lines[start:end])
    if flip is not None and len(flip) > 2 and flip[2] == 'lf':
        pos, ch = flip[0], flip[1]
        idxs = [i for i, c in enumerate(body) if c == '\n' and 0 < i < len(body) - 1 and body[i - 1] not in ' \t\n' and body[i + 1] != '\n']
        if not idxs:
            return signed, False
        i = idxs[pos % len(idxs)]
        body = body[:i] + ch + body[i + 1:]
        return '\n'.join(lines[:start] + body.split('\n') + lines[end:]), True
    if flip is not None:
        pos, ch = flip[0], flip[1]
        idxs = [i for i, c in enumerate(body) if not c.isspace() and c != '-']
        if not idxs:
            return signed, False
        i = idxs[pos % len(idxs)]
        if body[i] == ch:
            ch = 'q' if ch != 'q' else 'w'
        body = body[:i] + ch + body[i + 1:]
        return '\n'.join(lines[:start] + body.split('\n') + lines[end:]), True
    if ws is not None:
        bl = body.split('\n')
        j = ws % len(bl)
        bl[j] = bl[j] + ' \t'[ws % 2] * (1 + ws % 3)
        return '\n'.join(lines[:start] + bl + lines[end:]), False
    return signed, False


def expected_real(sc, mutated):
    """accept? for the isolated environment with the scenario's key file"""
    key = sc['key']
    trust = sc.get('trust')
    t = sc.get('peer_time')
    fault = sc.get('fault')
    if fault in ('exit1', 'exit2', 'kill', 'term', 'nooutput', 'garbage', 'nostatus', 'trunc:40', 'missing'):
        return False
    if mutated:
        return False
    lvl = 6 if trust is None else trust
    if lvl < 4:
        return False
    if key == 'signer':
        return True
    if key == 'expiring':
        return t == GS.BEFORE_EXPIRY
    if key == 'subkey':
        # the repository's sample was signed on 2020-08-25: from the future for an earlier peer clock
        return t != GS.BEFORE_EXPIRY
    return False


def exec_real(sc):
    violations = []
    counters = {}
    zones = {}
    key = sc['key']
    kd = to = None
    if key.startswith('subkey'):
        try:
            kd, to = subkey_material()
        except Exception as e:
            return mk_result([], [], False, outcome=['no test key data', repr(e)[:80]], dontcare={'no-subkey-material': 1})
        signed = to.SUBKEY_SIGNED_MANIFEST.lstrip('\n')
        keyblob = {'subkey': to.VALID_KEY_SUBKEY, 'subkey-forged': to.FORGED_SUBKEY, 'subkey-unsigned': to.UNSIGNED_SUBKEY}[key]
        fpr = None
    else:
        signer = {'signer': 'signer', 'expiring': 'expiring', 'revoked': 'revoked', 'unknown': 'signer', 'other-only': 'signer'}[key]
        signed = GS.clearsign(PAYLOAD, key=signer)
        pub = {'signer': 'signer.pub.asc', 'expiring': 'expiring.pub.asc', 'revoked': 'revoked.pub-revoked.asc',
               'unknown': None, 'other-only': 'other.pub.asc'}[key]
        keyblob = GS.keydata(pub) if pub else None
        fpr = GS.FPR.get({'other-only': 'other'}.get(key, key))
    signed0 = signed
    signed, mutated = flip_text(signed, sc.get('flip'), sc.get('ws'))
    if key.startswith('subkey') and sc.get('trust') is not None:
        sc = dict(sc, trust=None)
    accept = expected_real(sc, mutated)
    fault = sc.get('fault')
    api = sc.get('api', 'lib')
    with World(sc) as w:
        # the user's own keyring
        uh = os.path.join(w.base, 'gnupg-user')
        os.mkdir(uh, 0o700)
        import subprocess
        if sc.get('user_home') == 'signer-ultimate':
            for n in ('signer', 'expiring', 'revoked'):
                subprocess.run([GS.REAL_GPG, '--batch', '--import', GS.keyfile(n + '.pub.asc')], env=dict(os.environ, GNUPGHOME=uh), capture_output=True)
            subprocess.run([GS.REAL_GPG, '--batch', '--import-ownertrust'], input=''.join('%s:6:\n' % GS.FPR[n] for n in ('signer', 'expiring', 'revoked')).encode(),
                           env=dict(os.environ, GNUPGHOME=uh), capture_output=True)
        elif sc.get('user_home') == 'others':
            subprocess.run([GS.REAL_GPG, '--batch', '--import', GS.keyfile('other.pub.asc')], env=dict(os.environ, GNUPGHOME=uh), capture_output=True)
        subprocess.run(['gpgconf', '--kill', 'all'], env=dict(os.environ, GNUPGHOME=uh), capture_output=True)
        snap_user = GS.snapshot_dir(uh)
        old_home = os.environ.get('GNUPGHOME')
        os.environ['GNUPGHOME'] = uh
        try:
            with GS.RealPeer(faketime=sc.get('peer_time'), fault=None if fault == 'missing' else fault):
                if api == 'lib':
                    env = IsolatedGPGEnvironment(proxy=sc.get('proxy'))
                    try:
                        if keyblob is not None:
                            env.import_key(io.BytesIO(keyblob), trust=(sc.get('trust') is None))
                            if sc.get('trust') is not None and fpr:
                                GS.set_ownertrust(env, fpr, sc['trust'])
                            if sc.get('second_import'):
                                env.import_key(io.BytesIO(GS.keydata('other.pub.asc')), trust=True)
                                counters['real.second-key-imported-as-trusted'] = 1
                        peer2 = GS.RealPeer(faketime=sc.get('peer_time'), fault=fault, missing=(fault == 'missing'))
                        with peer2:
                            r1 = call(lambda: env.verify_file(io.StringIO(signed)))
                            m = gemato.manifest.ManifestFile()
                            r2 = call(lambda: m.load(io.StringIO(signed), verify_openpgp=True, openpgp_env=env))
                    finally:
                        env.close()
                    opv = None
                    if sc.get('opv') and keyblob is not None and sc.get('trust') is None and fault is None and '\r' not in signed:
                        # `gemato openpgp-verify -K key <file>...`: exit status 0 only if EVERY named message is accepted
                        kf = os.path.join(w.base, 'key.asc')
                        with open(kf, 'wb') as f:
                            f.write(keyblob)
                        fbad, fgood = os.path.join(w.base, 'msg.asc'), os.path.join(w.base, 'genuine.asc')
                        for fn_, tx_ in ((fbad, signed), (fgood, signed0)):
                            with open(fn_, 'w', encoding='utf8', newline='') as f:
                                f.write(tx_)
                        base = ['openpgp-verify', '-R', '-K', kf] + (['--proxy', sc['proxy']] if sc.get('proxy') else [])
                        if sc['opv'] == 'stdin':
                            opv = [('stdin', run_cli(base, stdin=io.StringIO(signed)))]
                        elif sc['opv'] == 'single' or not mutated or not expected_real(sc, False):
                            opv = [('single', run_cli(base + [fbad]))]
                        else:
                            alone = run_cli(base + [fgood])
                            if alone['kind'] == 'ok' and alone['rc'] == 0:
                                opv = [(sc['opv'], run_cli(base + ([fgood, fbad] if sc['opv'] == 'good-first' else [fbad, fgood])))]
                            else:
                                violations.append(viol('sig.good-rejected', 'gemato %s <genuine message>: %s' % (' '.join(base[:2]), '%s rc=%r' % (alone['kind'], alone.get('rc'))), sig='opv-alone'))
                    out = ['real', key, sc.get('trust'), sc.get('peer_time'), fault, mutated, accept, r1[0], r1[1] if r1[0] != 'ok' else 'data', bool(m.openpgp_signed)]
                    for how_, c_ in (opv or []):
                        counters['real.openpgp-verify.' + how_] = 1
                        out.append([how_, c_['kind'], c_.get('rc')])
                        whatc = 'gemato openpgp-verify -K (%s; key=%s peer_time=%s mutated=%s)' % (how_, key, sc.get('peer_time'), mutated)
                        if c_['kind'] == 'INTERNAL':
                            violations.append(viol('sig.internal-error', '%s: %s' % (whatc, c_['name']), sig=c_['name']))
                        elif c_['kind'] != 'ok':
                            violations.append(viol('sig.wrong-failure', '%s: %s %s' % (whatc, c_['kind'], c_.get('name')), sig=str(c_.get('name'))))
                        elif accept and c_['rc'] != 0:
                            violations.append(viol('sig.good-rejected', '%s: exit status %r' % (whatc, c_['rc']), sig='opv'))
                        elif not accept and c_['rc'] == 0:
                            violations.append(viol('sig.accepted', '%s: exit status 0' % whatc, sig='opv:' + how_))
                        elif not accept and (c_['rc'] != 1 or not any(l_[0] == 'ERROR' for l_ in c_.get('log', []))):
                            violations.append(viol('sig.wrong-failure', '%s: exit status %r, errors logged: %d' % (
                                whatc, c_['rc'], sum(1 for l_ in c_.get('log', []) if l_[0] == 'ERROR')), sig='opv-rc'))
                    what = 'key=%s trust=%s peer_time=%s fault=%s mutated=%s' % (key, sc.get('trust'), sc.get('peer_time'), fault, mutated)
                    for r in (r1, r2):
                        if r[0] == 'INTERNAL':
                            violations.append(viol('sig.internal-error', '%s: %s' % (what, describe(r)), sig=r[1]))
                    if fault == 'trunc:150' and r1[0] != 'ok':
                        zones['status-output-cut-after-150-bytes'] = 1
                    elif not violations:
                        if accept:
                            if r1[0] != 'ok':
                                violations.append(viol('sig.good-rejected', '%s: verify_file %s' % (what, describe(r1)), sig=str(r1[1])))
                            if r2[0] != 'ok' or m.openpgp_signed is not True:
                                violations.append(viol('sig.good-rejected', '%s: load %s signed=%r' % (what, describe(r2), m.openpgp_signed), sig='load'))
                        else:
                            if r1[0] == 'ok':
                                violations.append(viol('sig.accepted', '%s: verify_file returned signature data' % what, sig='verify_file:' + key))
                            elif r1[0] != 'GE':
                                violations.append(viol('sig.wrong-failure', '%s: verify_file %s' % (what, describe(r1)), sig=str(r1[1])))
                            if r2[0] == 'ok' or m.openpgp_signed:
                                violations.append(viol('sig.accepted', '%s: load %s openpgp_signed=%r' % (what, describe(r2), m.openpgp_signed), sig='load:' + key))
                            # the specific failure for the specific key state
                            if not fault and not mutated and r1[0] == 'GE':
                                want = None
                                lvl = 6 if sc.get('trust') is None else sc['trust']
                                if key == 'revoked':
                                    want = 'OpenPGPRevokedKeyFailure'
                                elif key == 'expiring' and sc.get('peer_time') != GS.BEFORE_EXPIRY:
                                    want = 'OpenPGPExpiredKeyFailure'
                                elif key in ('signer',) and lvl < 4:
                                    want = 'OpenPGPUntrustedSigFailure'
                                if want is not None and lvl == 3 and r1[1] == 'OpenPGPVerificationFailure':
                                    want = None      # gpg itself exits non-zero for a key marked 'never trust'
                                if want and r1[1] != want:
                                    violations.append(viol('sig.wrong-failure', '%s: expected %s, got %s' % (what, want, r1[1]), sig='%s!=%s' % (r1[1], want)))
                else:
                    # CLI on a tree whose top-level Manifest is the signed text
                    root = w.root
                    with open(os.path.join(root, 'a'), 'w') as f:
                        pass
                    os.makedirs(os.path.join(root, 'a_dir'), exist_ok=True)
                    unsigned = api == 'cli-unsigned-s'
                    body = 'DATA a 0\n'
                    if key.startswith('subkey'):
                        text = signed
                    else:
                        text = GS.clearsign(body, key={'signer': 'signer', 'expiring': 'expiring', 'revoked': 'revoked', 'unknown': 'signer', 'other-only': 'signer'}[key])
                        text, mutated = flip_text(text, sc.get('flip'), sc.get('ws'))
                        accept = expected_real(sc, mutated)
                    if key.startswith('subkey'):
                        # the repository's signed sample lists no files: keep the tree empty
                        os.unlink(os.path.join(root, 'a'))
                        os.rmdir(os.path.join(root, 'a_dir'))
                    else:
                        os.rmdir(os.path.join(root, 'a_dir'))
                    with open(os.path.join(root, 'Manifest'), 'w') as f:
                        f.write(body if unsigned else text)
                    kf = os.path.join(w.base, 'key.asc')
                    argv = ['verify', '-R']
                    use_key = api != 'cli-nokey' and keyblob is not None
                    if use_key:
                        with open(kf, 'wb') as f:
                            f.write(keyblob)
                        argv += ['-K', kf]
                    if 's' in api.split('-', 1)[-1] and api != 'cli-nokey':
                        argv += ['-s']
                    if 'P' in api:
                        argv += ['-P']
                    if sc.get('proxy'):
                        argv += ['--proxy', sc['proxy']]
                    argv.append(root)
                    peer2 = GS.RealPeer(faketime=sc.get('peer_time'), fault=fault, missing=(fault == 'missing'))
                    with peer2:
                        c = run_cli(argv)
                        c_multi = None
                        if unsigned and key == 'signer' and fault is None and use_key and sc.get('peer_time') != GS.AFTER_EXPIRY:
                            # the same request with a second, properly signed tree on the command line: the unsigned one
                            # must still fail the invocation, wherever it stands
                            root2 = os.path.join(w.base, 'tree2')
                            os.makedirs(root2, exist_ok=True)
                            with open(os.path.join(root2, 'a'), 'w') as f:
                                pass
                            with open(os.path.join(root2, 'Manifest'), 'w') as f:
                                f.write(GS.clearsign(body, key='signer'))
                            c_alone = run_cli(argv[:-1] + [root2])
                            if c_alone['kind'] == 'ok' and c_alone['rc'] == 0:
                                c_multi = [run_cli(argv[:-1] + [root, root2]), run_cli(argv[:-1] + [root2, root])]
                    if c_multi:
                        counters['real.cli-two-trees'] = 1
                        for cm_, order_ in zip(c_multi, ('unsigned first', 'unsigned last')):
                            if cm_['kind'] == 'ok' and cm_['rc'] == 0:
                                violations.append(viol('sig.accepted', 'gemato %s <unsigned tree> + <signed tree> (%s): exit status 0' % (' '.join(argv[:-1]), order_),
                                                       sig='cli-two-trees'))
                    what = 'gemato %s (key=%s trust=default peer_time=%s fault=%s mutated=%s user_home=%s)' % (
                        ' '.join(argv[:-1]), key, sc.get('peer_time'), fault, mutated, sc.get('user_home'))
                    out = ['real-cli', api, key, sc.get('peer_time'), fault, mutated, c['kind'], c.get('rc')]
                    if c['kind'] == 'INTERNAL':
                        violations.append(viol('sig.internal-error', '%s: %s' % (what, c['name']), sig=c['name']))
                    elif c['kind'] != 'ok':
                        violations.append(viol('sig.wrong-failure', '%s: %s %s' % (what, c['kind'], c.get('name')), sig=str(c.get('name'))))
                    else:
                        # expectations
                        if unsigned:
                            want = 1 if '-s' in argv else 0
                        elif '-P' in argv:
                            # verification disabled: entries are read, signature ignored; -s cannot be satisfied
                            want = 1 if '-s' in argv else 0
                            if mutated or fault:
                                want = None
                        elif not use_key:
                            # system environment = the user's own keyring (trust-model pgp: ultimate ownertrust set above)
                            if sc.get('trust') is not None:
                                sc = dict(sc, trust=None)
                            # (the user's copy of the 'revoked' key carries no revocation)
                            sys_ok = (sc.get('user_home') == 'signer-ultimate' and key in ('signer', 'expiring', 'unknown', 'other-only', 'revoked')
                                      and not mutated and fault in (None, 'stderr-nonutf', 'trunc:150'))
                            if key == 'expiring':
                                sys_ok = sys_ok and sc.get('peer_time') == GS.BEFORE_EXPIRY
                            want = 0 if sys_ok else 1
                            if fault == 'trunc:150':
                                want = None
                        else:
                            acc = expected_real(dict(sc, trust=None), mutated)
                            want = 0 if acc else 1
                            if fault == 'trunc:150':
                                want = None
                        if want is not None and c['rc'] != want:
                            cl = 'sig.accepted' if (want == 1 and c['rc'] == 0) else 'sig.good-rejected'
                            violations.append(viol(cl, '%s: exit status %r, expected %r; log %r' % (what, c['rc'], want, [m_[:80] for _, m_ in c['log'] if _ == 'ERROR'][:2]),
                                                   sig='%s:%s' % (api, key)))
        finally:
            if old_home is None:
                os.environ.pop('GNUPGHOME', None)
            else:
                os.environ['GNUPGHOME'] = old_home
        # the user's own keyring is left untouched whenever an isolated environment was in use
        subprocess.run(['gpgconf', '--kill', 'all'], env=dict(os.environ, GNUPGHOME=uh), capture_output=True)
        if api == 'lib' or (api != 'cli-nokey' and keyblob is not None):
            after = GS.snapshot_dir(uh)
            if after != snap_user:
                ch = sorted(k for k in set(after) | set(snap_user) if after.get(k) != snap_user.get(k))
                violations.append(viol('sig.user-keyring-touched', 'user GNUPGHOME changed while an isolated environment was in use: %r' % ch[:5], sig='home'))
    counters['real.' + api] = 1
    counters['real.key.' + key] = 1
    counters['real.' + ('accept' if accept else 'reject')] = 1
    nontrivial = True
    res = mk_result([], violations, nontrivial, outcome=out, dontcare=zones, counters=counters, ops=2,
                    extra_digest=repr(sorted((k, v) for k, v in sc.items() if k != 'order_key')))
    ff = {}
    if fault:
        ff['peer.' + fault.split(':')[0]] = 1
    if sc.get('peer_time'):
        ff['peer.clock-jump'] = 1
    if mutated:
        ff['channel.flipped-signed-byte'] = 1
    if sc.get('ws') is not None:
        ff['channel.trailing-whitespace'] = 1
    res['faults_fired'] = ff
    return res


def exec_sub(sc):
    """A SUB-Manifest that carries an OpenPGP signature, referenced from an (unsigned) parent with matching size and
    digest: the signature is owed a verdict all the same."""
    from gemato.recursiveloader import ManifestRecursiveLoader
    import hashlib
    violations = []
    kind = sc['sub_kind']
    body = 'DATA f 4 SHA256 %s\n' % hashlib.sha256(b'data').hexdigest()
    signed = GS.clearsign(body, key='other' if kind == 'unknown-signer' else 'signer')
    if kind == 'tampered':
        signed = signed.replace('DATA f 4', 'DATA f 4 ', 1)       # one blank more inside the signed text
        if sc.get('pos') is not None:
            i_ = signed.index('SHA256 ') + 7 + sc['pos'] % 60
            signed = signed[:i_] + ('0' if signed[i_] != '0' else '1') + signed[i_ + 1:]
            body = None
    with World(sc) as w:
        os.makedirs(os.path.join(w.root, 'sub'))
        with open(os.path.join(w.root, 'sub', 'f'), 'w') as f:
            f.write('data')
        with open(os.path.join(w.root, 'sub', 'Manifest'), 'w') as f:
            f.write(signed)
        sb = signed.encode('utf8')
        with open(os.path.join(w.root, 'Manifest'), 'w') as f:
            f.write('MANIFEST sub/Manifest %d SHA256 %s\n' % (len(sb), hashlib.sha256(sb).hexdigest()))
        with GS.RealPeer(faketime=GS.BEFORE_EXPIRY):
            env = IsolatedGPGEnvironment()
            try:
                env.import_key(io.BytesIO(GS.keydata('signer.pub.asc')))
                top = os.path.join(w.root, 'Manifest')
                op = sc.get('sub_op', 'verify')
                if op == 'verify':
                    r = call(lambda: ManifestRecursiveLoader(top, verify_openpgp=True, openpgp_env=env).assert_directory_verifies(''))
                else:
                    r = call(lambda: ManifestRecursiveLoader(top, verify_openpgp=True, openpgp_env=env).find_path_entry('sub/f') is not None)
            finally:
                env.close()
    what = 'sub-Manifest signed (%s), matching MANIFEST entry in an unsigned parent, %s' % (kind, sc.get('sub_op', 'verify'))
    good = kind == 'good'
    if r[0] == 'INTERNAL':
        violations.append(viol('sig.internal-error', '%s: %s' % (what, describe(r)), sig=r[1]))
    elif good and not (r[0] == 'ok' and r[1] is True):
        violations.append(viol('sig.good-rejected', '%s: %s' % (what, describe(r)), sig='sub'))
    elif not good and r[0] == 'ok':
        violations.append(viol('sig.accepted', '%s: loaded and used without any OpenPGP verdict' % what, sig='sub:' + kind))
    elif not good and not (r[0] == 'GE' and str(r[1]).startswith('OpenPGP')):
        violations.append(viol('sig.wrong-failure', '%s: %s' % (what, describe(r)), sig='sub:%s' % r[1]))
    return mk_result([], violations, True, outcome=['sub', kind, r[0], r[1] if r[0] != 'ok' else 'ok'],
                     counters={'real.sub-manifest.' + kind: 1}, ops=1)


def execute(sc):
    if sc.get('mode') == 'fake':
        return exec_fake(sc)
    if sc.get('mode') == 'sub':
        return exec_sub(sc)
    return exec_real(sc)
