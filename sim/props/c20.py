"""C20 The fast generator scripts and the reference implementation agree.

utils/gen_fast_manifest.py and utils/gen_fast_metamanifest.py are imported
from the working tree and called in-process under the seam.  The real
multiprocessing.Pool is replaced by SimPool: a serial pool that executes the
tasks of each map() in a keyed permutation (the only scheduling freedom
Pool.map with independent tasks has) and keeps the barrier between batches;
glob/scandir order is permuted; the clock shim supplies the TIMESTAMP.
"""
import os
import sys

from gemato.recursiveloader import ManifestRecursiveLoader

from .. import gen_repo as GR
from .. import grammar as G
from ..common import call, run_cli, mk_result, viol, cli_as_call
from ..model import Model, audit
from ..oracles import describe
from ..seam import Seam, Clock, keyed_order, make_datetime_shim, orig as _o
from ..world import World

REPO = os.environ.get('VERIF_REPO', '/repo')
_utils = os.path.join(REPO, 'utils')
if _utils not in sys.path:
    sys.path.insert(0, _utils)
import gen_fast_manifest          # noqa: E402
import gen_fast_metamanifest      # noqa: E402

ID = 'C20'
LEVEL = 'exploration'
NO_SHRINK = ('roles', 'tree', 'dist')
RULE = ('each run = role-built repository with portable names and the standard directories present (as C19), '
        'optionally pre-existing package Manifests with DIST lines; gen_fast_metamanifest on the whole repository '
        '(or gen_fast_manifest on single directories) executed in-process with a seeded serial pool that permutes '
        'the tasks of every map() barrier and with permuted glob/scandir order; then `gemato verify`, the on-disk '
        'auditor, `gemato update -p ebuild` on the untouched output (write-event log must be empty), then 0-5 '
        'edits + update + verify; non-trivial = at least one category with a package; distinct = distinct seam '
        'event-log digest')
PLAN = {'quick': {'n': 2000, 'budget_s': 90, 'block': 8},
        'thorough': {'n': 80000, 'budget_s': 2400, 'block': 60}}
ASSUMPTIONS = ['real worker processes are not run: SimPool explores task order inside each map() barrier only',
               'repositories contain eclass, licenses, profiles, metadata/{dtd,glsa,news,xml-schema,md5-cache} (the scripts take them for granted) and profiles/categories without blank lines']
COMPONENTS_REAL = ['utils/gen_fast_manifest.py, utils/gen_fast_metamanifest.py (imported from the working tree, called in-process)']
COMPONENTS_STUB = ['multiprocessing.Pool inside gen_fast_metamanifest -> SimPool (serial, keyed task permutation per map barrier)',
                   'datetime.utcnow inside gen_fast_metamanifest (simulated clock)']


class SimPool:
    def __init__(self, key, stats):
        self.key = key
        self.stats = stats
        self.nmap = 0

    def map(self, func, iterable, chunksize=None):
        items = list(iterable)
        self.nmap += 1
        order = keyed_order(self.key, 'map#%d' % self.nmap, [str(i) for i in range(len(items))])
        res = [None] * len(items)
        for si in order:
            i = int(si)
            res[i] = func(items[i])
        self.stats['pool_tasks'] = self.stats.get('pool_tasks', 0) + len(items)
        self.stats['pool_barriers'] = self.stats.get('pool_barriers', 0) + 1
        if order != [str(i) for i in range(len(items))]:
            self.stats['pool_maps_permuted'] = self.stats.get('pool_maps_permuted', 0) + 1
        return res

    def close(self):
        pass

    def join(self):
        pass


def generate(rng, tier, idx):
    g = GR.gen_repo(rng, portable=True, cfg={'standard_dirs': True, 'no_ignored_dirs': True,
                                            'min_cats': rng.random() < 0.8})
    roles = g['roles']
    dist = []
    for d in roles['package_dirs']:
        if rng.random() < 0.35:
            dist.append({'dir': d, 'names': ['%s-%d.tar.gz' % (os.path.basename(d), i) for i in range(rng.choice([1, 2]))],
                         'ignore': rng.random() < 0.2,
                         # hand-edited files: no newline after the last line, CR-LF line ends, the IGNORE line first
                         'ending': rng.choice(['\n', '\n', '', '', '\r\n', '\n\n']), 'ignore_first': rng.random() < 0.3})
    mode = 'meta' if rng.random() < 0.8 else 'single'
    edits = []
    pk = roles['package_dirs']
    for _ in range(rng.choice([0, 0, 1, 2, 3, 5])):
        k = rng.choice(['add-ebuild', 'add-aux', 'modify', 'modify', 'del', 'add-package', 'add-eclass', 'add-news'])
        if k == 'add-ebuild' and pk:
            d = rng.choice(pk)
            edits.append({'m': 'add', 'p': '%s/%s-%d.ebuild' % (d, os.path.basename(d), rng.randrange(10, 99)), 'k': 'file', 'c': 'new ebuild'})
        elif k == 'add-aux' and pk:
            d = rng.choice(pk)
            edits.append({'m': 'add', 'p': '%s/files/new-%d.patch' % (d, rng.randrange(99)), 'k': 'file', 'c': 'patch', 'parents': True})
        elif k == 'modify' and roles['files']:
            # (profiles/categories is the scripts' own input: editing it changes which directories they visit)
            mf = [f for f in roles['files'] if f != 'profiles/categories']
            if mf:
                edits.append({'m': 'rewrite', 'p': rng.choice(mf), 'c': 'modified %d' % rng.randrange(999)})
        elif k == 'del':
            cands = [f for f in roles['files'] if roles['tags'].get(f) in ('AUX', 'DATA') and not f.endswith('metadata.xml')
                     and not f.startswith('profiles/')]
            if cands:
                edits.append({'m': 'delete', 'p': rng.choice(cands)})
        elif k == 'add-package' and roles['categories']:
            c = rng.choice(roles['categories'])
            d = c + '/newpkg%d' % rng.randrange(9)
            edits.append({'m': 'add', 'p': d + '/newpkg-1.ebuild', 'k': 'file', 'c': 'ebuild', 'parents': True})
            edits.append({'m': 'add', 'p': d + '/metadata.xml', 'k': 'file', 'c': '<pkgmetadata/>', 'parents': True})
        elif k == 'add-eclass':
            edits.append({'m': 'add', 'p': 'eclass/new%d.eclass' % rng.randrange(9), 'k': 'file', 'c': 'eclass'})
        elif k == 'add-news':
            edits.append({'m': 'add', 'p': 'metadata/news/2021-item%d/item.en.txt' % rng.randrange(9), 'k': 'file', 'c': 'news', 'parents': True})
    regen = []
    if mode == 'meta' and rng.random() < 0.4:
        # the periodic refresh: the generator runs again over its own output, possibly after edits
        # (a new package arrives whole: ebuild and metadata.xml together - a package directory without
        # an ebuild is not repository-shaped and makes the script switch Manifest formats later)
        groups = {}
        for e in edits:
            key = os.path.dirname(e['p']) if '/newpkg' in e['p'] else id(e)
            groups.setdefault(key, []).append(e)
        glist = list(groups.values())
        for _ in range(rng.choice([1, 1, 2])):
            chosen = rng.sample(glist, rng.randrange(0, len(glist) + 1)) if glist else []
            regen.append({'edits': [dict(e) for g_ in chosen for e in g_]})
    if mode == 'meta' and roles.get('ebuildless') and rng.random() < 0.6:
        # a package that had no ebuild at generation time (the script gave it Manifest.gz) gets its first ebuild together
        # with a plain Manifest carrying the DIST entry (what the package tools write), then the generator runs again
        d = rng.choice(roles['ebuildless'])
        regen.append({'edits': [{'m': 'add', 'p': '%s/%s-1.ebuild' % (d, os.path.basename(d)), 'k': 'file', 'c': 'first ebuild'},
                                {'m': 'add', 'p': d + '/Manifest', 'k': 'file',
                                 'c': 'DIST %s-1.tar.gz 3 SHA512 %s\n' % (os.path.basename(d), 'ab' * 64)}]})
    if rng.random() < 0.3:
        # files around and beyond the scripts' read-block sizes (64 KiB, 1 MiB): the scripts have their own reading code
        fl = [t for t in g['tree'] if t.get('k', 'file') == 'file' and t['p'] != 'profiles/categories' and 'c' in t]
        for t in rng.sample(fl, min(len(fl), rng.choice([1, 1, 2]))):
            t.pop('c', None)
            t['prng'] = [rng.getrandbits(32), rng.choice([65535, 65536, 65537, 90001, 131072, 131089, 150000, 1048575, 1048577])]
    if rng.random() < 0.25:
        # dot-directories (which gemato never looks into), two or three of them side by side
        where = rng.choice([''] + [d + '/files' for d in roles['package_dirs']] + list(roles['package_dirs']))
        for nm in rng.sample(['.git', '.github', '.orig', '.rej', '.cache'], rng.choice([2, 2, 3])):
            g['tree'].append({'p': (where + '/' if where else '') + nm + '/inner-%s' % nm.strip('.'), 'k': 'file', 'c': 'hidden ' + nm})
    return {'prop': ID, 'order_key': '%016x' % rng.getrandbits(64), 'tree': g['tree'],
            'roles': {'package_dirs': roles['package_dirs'], 'categories': roles['categories']},
            'dist': dist, 'mode': mode, 'edits': edits, 'regen': regen}


def execute(sc):
    violations = []
    counters = {}
    outcome = []
    stats = {}
    with World(sc) as w:
        w.build()
        for d in sc.get('dist', []):
            lines = []
            for n in d['names']:
                data = ('dist ' + n).encode()
                lines.append(G.entry_line({'tag': 'DIST', 'path': n, 'size': len(data), 'sums': G.digests(data, ['BLAKE2B', 'SHA512'])}))
            if d.get('ignore'):
                if d.get('ignore_first'):
                    lines.insert(0, 'IGNORE some-local-file')
                else:
                    lines.append('IGNORE some-local-file')
            p = os.path.join(w.root, d['dir'], 'Manifest')
            if os.path.isdir(os.path.dirname(p)):
                end = d.get('ending', '\n')
                sep = '\r\n' if end == '\r\n' else '\n'
                with _o['open'](p, 'w', newline='') as f:
                    f.write(sep.join(lines) + end)
        clock = Clock(epoch_ns=w.epoch_ns + 50_000_000_000, key=sc['order_key'], mode='micro')
        seam = Seam(w.root, order_key=sc['order_key'], virtual_root=True, clock=clock)
        old_mp = gen_fast_metamanifest.multiprocessing
        old_dt = gen_fast_metamanifest.datetime
        pool = SimPool(sc['order_key'], stats)

        class _MP:
            @staticmethod
            def Pool(*a, **kw):
                return pool
        gen_fast_metamanifest.multiprocessing = _MP
        gen_fast_metamanifest.datetime = make_datetime_shim(clock)
        cwd = os.getcwd()
        opi = 0
        try:
            with seam:
                seam.begin_op(opi)
                if sc.get('mode') == 'single':
                    def single():
                        # what the metamanifest script does, bottom-up, but by calling gen_manifest directly
                        for d in sorted(sc['roles']['package_dirs']):
                            if os.path.isdir(os.path.join(w.root, d)):
                                gen_fast_manifest.gen_manifest(os.path.join(w.root, d))
                        return True
                    r = call(single)
                else:
                    r = call(lambda: gen_fast_metamanifest.gen_metamanifest(w.root, None) or True)
        finally:
            os.chdir(cwd)
            gen_fast_metamanifest.multiprocessing = old_mp
            gen_fast_metamanifest.datetime = old_dt
        opi += 1
        outcome.append(['generate', sc.get('mode'), r[0], str(r[1])[:60] if r[0] != 'ok' else 'ok'])
        if r[0] != 'ok':
            violations.append(viol('fastgen.script-failed', 'generator script raised %s' % describe(r), sig='%s:%s' % (r[0], r[1])))
            return mk_result([seam], violations, False, outcome=outcome, counters=counters, ops=1)
        if sc.get('mode') == 'single':
            # package directories only: each is a tree of its own
            for d in sorted(sc['roles']['package_dirs']):
                root = os.path.join(w.root, d)
                if not os.path.isdir(root):
                    continue
                top = 'Manifest' if os.path.exists(os.path.join(root, 'Manifest')) else 'Manifest.gz'
                with seam:
                    seam.begin_op(opi)
                    rv = call(lambda: ManifestRecursiveLoader(os.path.join(root, top)).assert_directory_verifies(''))
                opi += 1
                if not (rv[0] == 'ok' and rv[1] is True):
                    violations.append(viol('fastgen.output-does-not-verify', 'gen_fast_manifest(%s): %s' % (d, describe(rv)), sig='single'))
                a = audit(root, top, '', ['BLAKE2B', 'SHA512'])
                for code, p, detail in a.problems[:3]:
                    violations.append(viol('fastgen.audit-' + code, 'gen_fast_manifest(%s): %s %r %s' % (d, code, p, detail), sig=code))
                counters['single_dirs_checked'] = counters.get('single_dirs_checked', 0) + 1
            nontrivial = counters.get('single_dirs_checked', 0) > 0
            counters.update(stats)
            return mk_result([seam], violations, nontrivial, outcome=outcome, counters=counters, ops=opi)

        def verify_and_audit(stage):
            nonlocal opi
            with seam:
                seam.begin_op(opi)
                c = run_cli(['verify', w.root])
            opi += 1
            rv = cli_as_call(c)
            if rv[0] == 'INTERNAL':
                violations.append(viol('I-internal', 'internal error escaped: %s: %s [%s]' % (rv[1], rv[2], stage), sig=rv[1]))
            elif not (rv[0] == 'ok'):
                violations.append(viol('fastgen.output-does-not-verify', '%s: gemato verify %s' % (stage, describe(rv)), sig=stage.split()[0]))
            a = audit(w.root, 'Manifest', '', ['BLAKE2B', 'SHA512'])
            for code, p, detail in a.problems[:3]:
                violations.append(viol('fastgen.audit-' + code, '%s: %s %r %s' % (stage, code, p, detail), sig=code))
            mv = Model(w.root, 'Manifest').verdict('')
            if mv.kind != 'OK' and rv[0] == 'ok':
                violations.append(viol('fastgen.model-disagrees', '%s: model says %s %r' % (stage, mv.kind, dict(list(mv.offending.items())[:3])), sig=mv.kind))
        verify_and_audit('generator output')
        counters['meta_repos_checked'] = 1
        for gi, rg in enumerate(sc.get('regen', [])):
            for e in rg.get('edits', []):
                w.mutate(dict(e, now_ns=clock.now_ns))
            clock.advance(3600_000_000_000)
            gen_fast_metamanifest.multiprocessing = _MP
            gen_fast_metamanifest.datetime = make_datetime_shim(clock)
            try:
                with seam:
                    seam.begin_op(opi)
                    rr = call(lambda: gen_fast_metamanifest.gen_metamanifest(w.root, None) or True)
            finally:
                os.chdir(cwd)
                gen_fast_metamanifest.multiprocessing = old_mp
                gen_fast_metamanifest.datetime = old_dt
            opi += 1
            outcome.append(['regenerate', gi, rr[0], str(rr[1])[:60] if rr[0] != 'ok' else 'ok'])
            if rr[0] != 'ok':
                violations.append(viol('fastgen.script-failed', 'regeneration %d raised %s' % (gi, describe(rr)), sig='regen:%s:%s' % (rr[0], rr[1])))
                break
            verify_and_audit('regenerated output %d' % gi)
            counters['regenerations'] = counters.get('regenerations', 0) + 1
        # update on the untouched tree finds nothing to change
        nwe = len(seam.write_events)
        snap0 = w.snapshot()
        with seam:
            seam.begin_op(opi)
            c = run_cli(['update', '-p', 'ebuild', w.root])
        opi += 1
        ru = cli_as_call(c)
        outcome.append(['update-untouched', ru[0], str(ru[1])[:60] if ru[0] != 'ok' else 'ok'])
        if ru[0] == 'INTERNAL':
            violations.append(viol('I-internal', 'internal error escaped: %s: %s [update on generator output]' % (ru[1], ru[2]), sig=ru[1]))
        elif ru[0] != 'ok':
            violations.append(viol('fastgen.update-failed', 'gemato update -p ebuild on untouched generator output: %s' % describe(ru), sig='untouched'))
        else:
            we = seam.write_events[nwe:]
            if we or w.snapshot() != snap0:
                violations.append(viol('fastgen.update-finds-changes', 'gemato update -p ebuild rewrote %r on the untouched generator output' % (
                    sorted(set(e[2] for e in we))[:6],), sig=os.path.basename(we[0][2]) if we else 'snapshot'))
        # edits, update, verify
        if sc.get('edits') and not violations:
            applied = 0
            for e in sc['edits']:
                applied += 1 if w.mutate(dict(e, now_ns=clock.now_ns)) else 0
            clock.advance(5_000_000_000)
            with seam:
                seam.begin_op(opi)
                c = run_cli(['update', '-p', 'ebuild', w.root])
            opi += 1
            ru = cli_as_call(c)
            outcome.append(['update-after-edits', applied, ru[0], str(ru[1])[:60] if ru[0] != 'ok' else 'ok'])
            if ru[0] == 'INTERNAL':
                violations.append(viol('I-internal', 'internal error escaped: %s: %s [update after edits]' % (ru[1], ru[2]), sig=ru[1]))
            elif ru[0] != 'ok':
                violations.append(viol('fastgen.update-failed', 'gemato update -p ebuild after %d edits: %s' % (applied, describe(ru)), sig='edited'))
            else:
                verify_and_audit('after edits+update')
            counters['edited_repos'] = 1
    counters.update(stats)
    nontrivial = bool(sc['roles']['package_dirs'])
    return mk_result([seam], violations, nontrivial, outcome=outcome, counters=counters, ops=opi)
