"""C03 Update writes Manifests that describe the tree exactly and then verify.

History machine (sim/update_engine.py): prior tree + prior Manifest state
(absent / exact / stale / duplicates / unregistered / several per directory /
compressed), 1-4 rounds of (file edits; update through library or CLI with
drawn options), every directory listing permuted by the seam.  Oracle after
every successful update+save: M-audit over the files on disk + a fresh
verification under the seam + M-verify.
"""
from .. import gen_update as GU
from ..common import mk_result
from ..update_engine import run_history

ID = 'C03'
LEVEL = 'exploration'
FAMILIES = ('audit',)
RULE = ('each run = generated tree + prior Manifest state (absent/exact/stale sizes+digests/vanished/missing/'
        'duplicate entries/unregistered valid or invalid Manifests/several Manifests per directory/compressed) '
        '+ 1-4 rounds of (edits; update with drawn hash set, profile, sort, force, watermark/format, whole tree '
        'or sub-directory, library or CLI, sometimes on the loader object of the previous round) with permuted directory listings, permuted '
        'worker-pool completion order and (half of the runs) short raw reads; after every successful update the '
        'on-disk auditor, a fresh gemato verification and the reference verifier are evaluated; non-trivial = at '
        'least one update succeeded on a prior state that was not already exact; distinct = distinct seam '
        'event-log digest')
PLAN = {'quick': {'n': 8000, 'budget_s': 90, 'block': 30},
        'thorough': {'n': 400000, 'budget_s': 2400, 'block': 150}}
ASSUMPTIONS = ['an update that raises makes the premise "completes without error" false; such runs are judged by C10/C18 only',
               'M-audit (sim/model.py) is the reading of "describes the directory exactly"']


def generate(rng, tier, idx):
    sc = GU.gen_history(rng)
    sc['prop'] = ID
    return sc


def execute(sc, families=FAMILIES, want_idempotence=False):
    h = run_history(sc, want_idempotence=want_idempotence)
    vs = [v for v in h['violations'] if v['clause'].split('.')[0] in families]
    c = h['counters']
    nontrivial = c.get('audited_updates', 0) > 0
    return mk_result(h['seams'], vs, nontrivial, outcome=h['outcome'], dontcare=h['zones'], counters=c,
                     ops=len(h['results']))
NO_SHRINK = ('hashes',)
