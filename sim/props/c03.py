"""C03 Update writes Manifests that describe the tree exactly and then verify.

History machine (sim/update_engine.py): prior tree + prior Manifest state
(absent / exact / stale / duplicates / unregistered / several per directory /
compressed), 1-4 rounds of (file edits; update through library or CLI with
drawn options), every directory listing permuted by the seam.  Oracle after
every successful update+save: M-audit over the files on disk + a fresh
verification under the seam + M-verify.
"""
import copy

from .. import gen_update as GU
from ..common import mk_result
from ..update_engine import run_history

ID = 'C03'
LEVEL = 'exploration'
FAMILIES = ('audit',)
RULE = ('each run = generated tree + prior Manifest state (absent/exact/stale sizes+digests/vanished/missing/'
        'duplicate entries/unregistered valid or invalid Manifests/several Manifests per directory/compressed) '
        '+ 1-4 rounds of (edits; update with drawn hash set, profile, sort, force, watermark/format, whole tree '
        'or sub-directory, library or CLI, sometimes on the loader object of the previous round) with permuted directory listings, permuted '
        'worker-pool completion order and (half of the runs) short raw reads; in 20% of the multi-round histories the save of an earlier '
        'round dies at a drawn write-side call (ENOSPC, EDQUOT, EROFS, EIO, EACCES) and the later rounds start from the half-saved state; after every successful update the '
        'on-disk auditor, a fresh gemato verification and the reference verifier are evaluated; non-trivial = at '
        'least one update succeeded on a prior state that was not already exact; distinct = distinct seam '
        'event-log digest')
PLAN = {'quick': {'n': 8000, 'budget_s': 90, 'block': 30},
        'thorough': {'n': 400000, 'budget_s': 2400, 'block': 150}}
ASSUMPTIONS = ['an update that raises makes the premise "completes without error" false; such runs are judged by C10/C18 only',
               'M-audit (sim/model.py) is the reading of "describes the directory exactly"']


WRITE_KINDS = ('open.w', 'write', 'unlink', 'truncate', 'rename')
READ_KINDS = ('scandir', 'scandir.next', 'stat', 'lstat', 'fstat', 'os.open', 'open', 'read')
WRITE_ERRNOS = ['ENOSPC', 'EDQUOT', 'EROFS', 'EIO', 'EACCES']


def generate(rng, tier, idx):
    sc = GU.gen_history(rng)
    sc['prop'] = ID
    if len(sc['rounds']) > 1 and rng.random() < 0.2:
        # crash point: one save of an earlier round dies at a write-side call (full disk, I/O error), leaving whatever
        # it had written so far; the following rounds meet that half-saved state as their prior state
        sc['crash'] = {'pick': rng.getrandbits(30), 'errno': rng.choice(WRITE_ERRNOS)}
    elif rng.random() < 0.15:
        # transient read-side fault inside one update (one call of its scan fails once: a directory listing, a stat, an
        # open, a read): the update may fail - if it completes, what it saved is audited like any other result
        sc['scan_fault'] = {'pick': rng.getrandbits(30), 'errno': rng.choice(['EIO', 'EIO', 'EACCES', 'ENOMEM', 'ESTALE']),
                            'pref': rng.choice(['scandir', 'scandir', 'any'])}
    return sc


def execute(sc, families=FAMILIES, want_idempotence=False):
    faults = None
    if sc.get('crash_plan') is not None:
        faults = [dict(sc['crash_plan'])]
    elif sc.get('crash'):
        h0 = run_history(copy.deepcopy(sc), want_idempotence=False, audits=False)
        ev = h0['seams'][0].events
        last_round_start = None
        # write-side calls of all rounds but the last (so that at least one update follows the crash)
        n_upd = sum(1 for r_ in sc['rounds'] if 'update' in r_)
        seen = {}
        sites = []
        wr = [e for e in h0['seams'][0].write_events]
        last_op = max([e[0] for e in wr] or [0])
        for n, kind, rel, outcome in ev:
            k = (kind, rel)
            seen[k] = seen.get(k, 0) + 1
            if kind in WRITE_KINDS:
                sites.append([kind, rel, seen[k]])
        # drop the sites that belong to the last writing operation
        nlast = sum(1 for e in wr if e[0] == last_op and e[1] in WRITE_KINDS)
        sites = sites[:max(0, len(sites) - nlast)]
        if sites:
            s_ = sites[sc['crash']['pick'] % len(sites)]
            faults = [{'kinds': [s_[0]], 'path': s_[1], 'nth': s_[2], 'errno': sc['crash']['errno']}]
    elif sc.get('scan_fault'):
        # (same audits as the real run: the fault is addressed by the global call index)
        h0 = run_history(copy.deepcopy(sc), want_idempotence=want_idempotence)
        s0 = h0['seams'][0]
        uops = h0.get('update_ops', [])
        sites = [(kind, n) for (n, kind, rel, outcome) in s0.events
                 if kind in READ_KINDS and any(a_ < n <= b_ for a_, b_ in uops)]
        if sc['scan_fault']['pref'] == 'scandir' and any(k_.startswith('scandir') for k_, n_ in sites):
            sites = [x_ for x_ in sites if x_[0].startswith('scandir')]
        if sites:
            k_, n_ = sites[sc['scan_fault']['pick'] % len(sites)]
            faults = [{'at': n_, 'errno': sc['scan_fault']['errno']}]      # (global call index: the run is identical up to there)
    h = run_history(sc, want_idempotence=want_idempotence, faults=faults)
    if faults:
        fired = sum(f_.get('_fired', 0) for f_ in h['seams'][0].faults)
        if sc.get('scan_fault'):
            h['counters']['histories_with_a_transient_scan_fault'] = 1 if fired else 0
            if fired and not any(r_[0] != 'ok' for r_ in h['results']):
                h['counters']['updates_completed_despite_a_scan_fault'] = 1
        else:
            h['counters']['histories_with_a_crashed_save'] = 1 if fired else 0
    vs = [v for v in h['violations'] if v['clause'].split('.')[0] in families]
    c = h['counters']
    nontrivial = c.get('audited_updates', 0) > 0
    return mk_result(h['seams'], vs, nontrivial, outcome=h['outcome'], dontcare=h['zones'], counters=c,
                     ops=len(h['results']))
NO_SHRINK = ('hashes',)
