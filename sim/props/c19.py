"""C19 Profiles place Manifests and type entries as documented; output verifies.

Repositories are built from ROLES (category, package, ebuild, metadata.xml,
files/, eclass, licenses, profiles, metadata/{dtd,glsa,news,xml-schema,
md5-cache/<cat>}, ignored distfiles/local/packages, loose top-level files);
`create` (CLI or library) with one of the three profiles, then role-aware
edits and `update`, all under keyed permutations of every directory listing.
Oracle: M-policy, computed from the roles the generator assigned (never by
re-evaluating gemato's path predicates), + default-profile verification +
M-verify + M-audit.
"""
import os

from gemato.recursiveloader import ManifestRecursiveLoader
from gemato.profile import get_profile_by_name

from .. import gen_repo as GR
from .. import grammar as G
from ..common import call, run_cli, mk_result, viol, cli_as_call
from ..model import Model, audit, logical_name, pjoin
from ..oracles import describe
from ..seam import Seam, orig as _o
from ..update_engine import in_use_manifests, is_manifest_path
from ..world import World

ID = 'C19'
LEVEL = 'exploration'
NO_SHRINK = ('hashes', 'roles', 'tree')
RULE = ('each run = role-built repository (0-4 categories x 0-4 packages with ebuilds, metadata.xml, nested files/; '
        'eclass, licenses, profiles, metadata with dtd/glsa/news/xml-schema/md5-cache; ignored distfiles/local/'
        'packages; loose files) + profile (default/ebuild/old-ebuild) + explicit overrides (hashes, watermark, '
        'format, sort) + create, then 0-3 role-aware edits + update, via CLI or library, with permuted directory '
        'listings; non-trivial = an ebuild profile on a repository with at least one package or standard directory; '
        'distinct = distinct seam event-log digest')
PLAN = {'quick': {'n': 3000, 'budget_s': 90, 'block': 12},
        'thorough': {'n': 120000, 'budget_s': 2400, 'block': 100}}
ASSUMPTIONS = ['expected placement/typing comes from generator roles (M-policy); empty categories without metadata.xml and packages without ebuilds are not generated (statement silent)']


def generate(rng, tier, idx):
    g = GR.gen_repo(rng)
    roles = g['roles']
    profile = rng.choice(['ebuild', 'ebuild', 'old-ebuild', 'old-ebuild', 'default'])
    ov = {}
    if rng.random() < 0.3 or profile == 'default':
        ov['hashes'] = rng.choice([['SHA256'], ['MD5', 'SHA1'], ['SHA512', 'BLAKE2S']])
    if rng.random() < 0.25:
        ov['watermark'] = rng.choice([0, 64, 300, 100000])
    if rng.random() < 0.2:
        ov['format'] = rng.choice(['bz2', 'xz', 'lzma'])
    api = rng.choice(['cli', 'cli', 'lib'])
    if api == 'lib' and rng.random() < 0.3:
        ov['sort'] = False
    edits = []
    pk = roles['package_dirs']
    for d in roles.get('ebuildless', []):
        if rng.random() < 0.7:
            # the package gets its first ebuild between create and update
            edits.append({'m': 'add', 'p': '%s/%s-%d.ebuild' % (d, os.path.basename(d), rng.randrange(1, 9)),
                          'k': 'file', 'c': 'first ebuild', 'tag': 'EBUILD'})
    for _ in range(rng.choice([0, 1, 2, 3])):
        k = rng.choice(['add-ebuild', 'add-aux', 'modify', 'del', 'add-package', 'add-eclass', 'add-dist'])
        if k == 'add-dist' and pk:
            # what the package tools do: a DIST line is appended to the package's Manifest (whatever its compression) out
            # of band; usually something in the category changes in the same commit
            d = rng.choice(pk)
            edits.append({'m': 'append-dist', 'p': d, 'line': 'DIST %s-%d.tar.gz %d SHA512 %s' % (
                os.path.basename(d), rng.randrange(1, 99), rng.randrange(1, 10**6), '%0128x' % rng.getrandbits(500))})
            sib = [f for f in roles['files'] if os.path.dirname(f) == os.path.dirname(d)]
            if sib and rng.random() < 0.7:
                edits.append({'m': 'rewrite', 'p': rng.choice(sib), 'c': 'category file modified %d' % rng.randrange(999)})
            elif rng.random() < 0.5:
                edits.append({'m': 'add', 'p': os.path.dirname(d) + '/zz-newpkg/zz-newpkg-1.ebuild', 'k': 'file', 'c': 'ebuild', 'parents': True,
                              'tag': 'EBUILD', 'new_package_dir': os.path.dirname(d) + '/zz-newpkg'})
            continue
        if k == 'add-ebuild' and pk:
            d = rng.choice(pk)
            edits.append({'m': 'add', 'p': '%s/%s-%d.ebuild' % (d, os.path.basename(d), rng.randrange(10, 99)),
                          'k': 'file', 'c': 'new ebuild', 'tag': 'EBUILD'})
        elif k == 'add-aux' and pk:
            d = rng.choice(pk)
            edits.append({'m': 'add', 'p': '%s/files/new-%d.patch' % (d, rng.randrange(99)), 'k': 'file', 'c': 'patch',
                          'parents': True, 'tag': 'AUX'})
        elif k == 'modify' and roles['files']:
            edits.append({'m': 'rewrite', 'p': rng.choice(roles['files']), 'c': 'modified %d' % rng.randrange(999)})
        elif k == 'del':
            cands = [f for f in roles['files'] if roles['tags'].get(f) in ('AUX', 'DATA') and not f.endswith('metadata.xml')
                     and f != 'profiles/categories']
            if cands:
                edits.append({'m': 'delete', 'p': rng.choice(cands)})
        elif k == 'add-package' and roles['categories']:
            c = rng.choice(roles['categories'])
            d = c + '/newpkg%d' % rng.randrange(9)
            edits.append({'m': 'add', 'p': d + '/newpkg-1.ebuild', 'k': 'file', 'c': 'ebuild', 'parents': True,
                          'tag': 'EBUILD', 'new_package_dir': d})
            edits.append({'m': 'add', 'p': d + '/metadata.xml', 'k': 'file', 'c': '<pkgmetadata/>', 'parents': True,
                          'tag': 'MISC'})
        elif k == 'add-eclass' and 'eclass' in roles['manifest_dirs']:
            edits.append({'m': 'add', 'p': 'eclass/new%d.eclass' % rng.randrange(9), 'k': 'file', 'c': 'eclass', 'tag': 'DATA'})
    # the update runs with another compression format than the create did (already compressed Manifests keep theirs)
    format2 = rng.choice(['gz', 'bz2', 'xz', 'lzma']) if rng.random() < 0.25 else None
    if format2 and rng.random() < 0.7:
        # ... and one directory loses all its files, so that its Manifest falls below the watermark again
        cands = [d for d in ('eclass', 'licenses', 'metadata/dtd', 'metadata/glsa', 'metadata/xml-schema')
                 if d in roles['manifest_dirs'] and any(os.path.dirname(f) == d for f in roles['files'])]
        if cands:
            d = rng.choice(cands)
            edits = [e for e in edits if not e['p'].startswith(d + '/')]
            edits += [{'m': 'delete', 'p': f} for f in roles['files'] if os.path.dirname(f) == d]
    return {'prop': ID, 'order_key': '%016x' % rng.getrandbits(64), 'tree': g['tree'], 'format2': format2,
            'roles': {'manifest_dirs': roles['manifest_dirs'], 'tags': roles['tags'], 'package_dirs': roles['package_dirs'],
                      'ignored_present': roles['ignored_present']},
            'profile': profile, 'ov': ov, 'api': api, 'edits': edits}


def run_update(w, seam, sc, create, opi):
    prof = sc['profile']
    ov = sc.get('ov', {})
    if not create and sc.get('format2'):
        ov = dict(ov, format=sc['format2'])
    top = os.path.join(w.root, 'Manifest')
    with seam:
        seam.begin_op(opi)
        if sc.get('api') == 'lib':
            def run():
                kw = {}
                if ov.get('hashes'):
                    kw['hashes'] = list(ov['hashes'])
                if ov.get('watermark') is not None:
                    kw['compress_watermark'] = ov['watermark']
                if ov.get('format'):
                    kw['compress_format'] = ov['format']
                if ov.get('sort') is not None:
                    kw['sort'] = ov['sort']
                m = ManifestRecursiveLoader(top, profile=get_profile_by_name(prof), allow_create=create, **kw)
                if m.hashes is None:
                    return 'no-hashes'
                m.update_entries_for_directory('')
                m.save_manifests()
                return True
            return call(run)
        argv = ['create' if create else 'update', '-p', prof]
        if ov.get('hashes'):
            argv += ['-H', ' '.join(ov['hashes'])]
        if ov.get('watermark') is not None:
            argv += ['-c', str(ov['watermark'])]
        if ov.get('format'):
            argv += ['-C', ov['format']]
        argv.append(w.root)
        return cli_as_call(run_cli(argv))


def check_policy(w, sc, roles, what, not_rewritten=()):
    """M-policy against the files on disk."""
    vs = []
    prof = sc['profile']
    ov = sc.get('ov', {})
    ebuildish = prof in ('ebuild', 'old-ebuild')
    inuse = in_use_manifests(w.root, 'Manifest')
    # every Manifest-named file on disk is in use
    on_disk = set()
    for d, dn, fn in os.walk(w.root):
        rel = os.path.relpath(d, w.root)
        rel = '' if rel == '.' else rel
        if any(rel == i or rel.startswith(i + '/') for i in GR.TOP_IGNORED):
            continue
        for n in fn:
            if is_manifest_path(n):
                on_disk.add(pjoin(rel, n))
    stray = sorted(on_disk - set(inuse))
    if stray:
        vs.append(viol('policy.unreferenced-manifest', '%s: Manifest files not referenced from the top: %r' % (what, stray[:4]), sig='stray'))
    odd = sorted(p for p in inuse if not (os.path.basename(p) == 'Manifest' or
                                          (os.path.basename(p).startswith('Manifest.') and G.comp_of(p) and logical_name(os.path.basename(p)) == 'Manifest')))
    if odd:
        # referenced and loadable, but no tool (gemato's own upward discovery included) would look for it under that name
        vs.append(viol('policy.manifest-name', '%s: Manifests stored under names that are not Manifest[.gz|.bz2|.lzma|.xz]: %r' % (what, odd[:4]), sig='name'))
    got_dirs = sorted(set(os.path.dirname(p) for p in inuse))
    want_dirs = sorted(roles['manifest_dirs']) if ebuildish else ['']
    want_dirs = [d for d in want_dirs if d == '' or os.path.isdir(os.path.join(w.root, d))]
    if got_dirs != want_dirs:
        vs.append(viol('policy.placement', '%s: Manifests in %r, policy names %r (missing %r, extra %r)' % (
            what, got_dirs, want_dirs, sorted(set(want_dirs) - set(got_dirs)), sorted(set(got_dirs) - set(want_dirs))),
            sig='missing' if set(want_dirs) - set(got_dirs) else 'extra'))
        return vs
    by_dir = {}
    for p, ents in inuse.items():
        if ents is None:
            vs.append(viol('policy.unparseable', '%s: %s unparseable' % (what, p)))
            return vs
        by_dir.setdefault(os.path.dirname(p), []).append((p, ents))
    hashes = ov.get('hashes') or (['BLAKE2B', 'SHA512'] if ebuildish else None)
    W = ov.get('watermark') if ov.get('watermark') is not None else (128 if ebuildish else None)
    fmt = ov.get('format') or 'gz'
    sort = ov.get('sort') if ov.get('sort') is not None else (True if ebuildish else False)
    # default IGNOREs
    if ebuildish:
        for md in got_dirs:
            exp = GR.expected_ignores(md)
            have = set(e['path'] for p, ents in by_dir[md] for e in ents if e['tag'] == 'IGNORE')
            miss = [i for i in exp if i not in have]
            extra = sorted(have - set(exp))
            if miss:
                vs.append(viol('policy.default-ignore', '%s: %s/Manifest lacks IGNORE %r' % (what, md, miss), sig=md or 'top'))
            if extra:
                # every Manifest of a role-built repository is created by the profile: nothing but the
                # documented defaults may be ignored
                vs.append(viol('policy.undocumented-ignore', '%s: %s/Manifest ignores %r, documented defaults are %r' % (
                    what, md, extra, list(exp)), sig=md or 'top'))
    # tags + placement of file entries
    entries = {}
    for p, ents in inuse.items():
        md = os.path.dirname(p)
        for e in ents:
            if e['tag'] in ('DATA', 'MISC', 'EBUILD', 'AUX'):
                entries.setdefault(pjoin(md, e['path']), []).append((e, p))
    for f, tag in roles['tags'].items():
        if not os.path.isfile(os.path.join(w.root, f)):
            continue
        es = entries.get(f, [])
        if len(es) != 1:
            vs.append(viol('policy.coverage', '%s: %r has %d entries' % (what, f, len(es)), sig=str(len(es))))
            continue
        e, mp = es[0]
        want_tag = tag if prof == 'old-ebuild' else 'DATA'
        if e['tag'] != want_tag:
            vs.append(viol('policy.entry-type', '%s: %r typed %s, role says %s' % (what, f, e['tag'], want_tag), sig='%s->%s' % (want_tag, e['tag'])))
        deepest = max((d for d in want_dirs if d == '' or f.startswith(d + '/')), key=len)
        if os.path.dirname(mp) != deepest:
            vs.append(viol('policy.entry-placement', '%s: %r listed in %s, governing directory is %r' % (what, f, mp, deepest), sig='placement'))
        if hashes is not None and set(e['sums']) != set(hashes):
            vs.append(viol('policy.hashes', '%s: %r has hashes %r, want %r' % (what, f, sorted(e['sums']), hashes), sig='hashes'))
    for p, ents in inuse.items():
        for e in ents:
            if e['tag'] == 'MANIFEST' and hashes is not None and set(e['sums']) != set(hashes):
                vs.append(viol('policy.hashes', '%s: MANIFEST %s in %s has hashes %r, want %r' % (what, e['path'], p, sorted(e['sums']), hashes), sig='hashes'))
        if p in not_rewritten:
            # edited out of band and left alone by this update (nothing in it to change): order and compression are
            # whatever the other tool left - the policy speaks about Manifests the update writes
            continue
        if sort:
            raw = G.decompress(w.read(p), G.comp_of(p)).decode('utf8')
            keys = []
            for line in raw.split('\n'):
                sl = line.split()
                if sl:
                    keys.append((sl[0], sl[1] if len(sl) > 1 else ''))
            # gemato orders by (tag, decoded path); AUX by its files/-prefixed path
            dk = []
            for e in ents:
                dk.append((e['tag'], e.get('path', e.get('ts', ''))))
            if dk != sorted(dk):
                vs.append(viol('policy.sorted', '%s: %s is not sorted: %r' % (what, p, dk[:6]), sig='sort'))
        # compression
        if W is not None and p != 'Manifest':
            unc = len(G.decompress(w.read(p), G.comp_of(p)))
            comp = G.comp_of(p)
            if prof == 'old-ebuild' and os.path.dirname(p) in roles['package_dirs']:
                try:
                    has_ebuild = any(n_.endswith('.ebuild') for n_ in _o['os.listdir'](os.path.join(w.root, os.path.dirname(p))))
                except OSError:
                    has_ebuild = True
                if not has_ebuild:
                    pass      # a package directory without any ebuild: the statement does not say (don't-care)
                elif comp is not None:
                    vs.append(viol('policy.package-manifest-compressed', '%s: %s is compressed under old-ebuild' % (what, p), sig='pkg'))
            else:
                if (unc >= W) != (comp is not None):
                    vs.append(viol('policy.watermark', '%s: %s uncompressed size %d, watermark %d, stored %s' % (
                        what, p, unc, W, comp or 'plain'), sig='wm'))
                elif comp is not None and comp != fmt and comp != sc.get('format2'):
                    vs.append(viol('policy.format', '%s: %s stored as %s, requested %s' % (what, p, comp, fmt), sig='fmt'))
        if W is not None and p == 'Manifest' and G.comp_of(p):
            vs.append(viol('policy.top-compressed', '%s: top-level compressed' % what))
    return vs


def execute(sc):
    violations = []
    counters = {}
    outcome = []
    roles = {'manifest_dirs': list(sc['roles']['manifest_dirs']), 'tags': dict(sc['roles']['tags']),
             'package_dirs': list(sc['roles']['package_dirs'])}
    with World(sc) as w:
        w.build()
        seam = Seam(w.root, order_key=sc['order_key'], virtual_root=True)
        steps = [('create', True, [])]
        if sc.get('edits'):
            steps.append(('update', False, sc['edits']))
        opi = 0
        for name, create, edits in steps:
            oob = set()
            for e in edits:
                if e.get('m') == 'append-dist':
                    for n_ in G.MANIFEST_NAMES:
                        mp_ = os.path.join(w.root, e['p'], n_)
                        if os.path.isfile(mp_):
                            with _o['open'](mp_, 'rb') as f_:
                                t_ = G.decompress(f_.read(), G.comp_of(n_))
                            with _o['open'](mp_, 'wb') as f_:
                                f_.write(G.compress(t_ + (b'' if t_.endswith(b'\n') or not t_ else b'\n') + e['line'].encode() + b'\n', G.comp_of(n_)))
                            counters['dist_lines_appended_out_of_band'] = counters.get('dist_lines_appended_out_of_band', 0) + 1
                            oob.add(os.path.join(e['p'], n_))
                            break
                    continue
                ok = w.mutate({k: v for k, v in e.items() if k not in ('tag', 'new_package_dir')})
                if ok and e.get('m') == 'add':
                    roles['tags'][e['p']] = e.get('tag', 'DATA')
                    if e.get('new_package_dir'):
                        roles['manifest_dirs'].append(e['new_package_dir'])
                        roles['package_dirs'].append(e['new_package_dir'])
            r = run_update(w, seam, sc, create, opi)
            opi += 1
            what = '%s -p %s %r via %s' % (name, sc['profile'], sc.get('ov', {}), sc.get('api'))
            outcome.append([name, r[0], str(r[1])[:50] if r[0] != 'ok' else repr(r[1])])
            counters['%s.%s' % (name, r[0])] = counters.get('%s.%s' % (name, r[0]), 0) + 1
            if r[0] == 'INTERNAL':
                violations.append(viol('I-internal', 'internal error escaped: %s: %s [%s]' % (r[1], r[2], what), sig=r[1]))
                break
            if r[0] != 'ok' or r[1] is not True:
                if sc['profile'] == 'default' and not sc.get('ov', {}).get('hashes'):
                    break       # "--hashes must be specified": documented refusal
                violations.append(viol('policy.update-failed', '%s failed on a well-formed repository: %s' % (what, describe(r) if r[0] != 'ok' else r[1]),
                                       sig='%s:%s' % (r[0], r[1])))
                break
            wr_ = set(p_ for e_ in seam.write_events if e_[0] == opi - 1 for p_ in e_[2].split(' -> '))
            violations += check_policy(w, sc, roles, what, not_rewritten=set(p_ for p_ in oob if p_ not in wr_))
            counters['policy_checked'] = counters.get('policy_checked', 0) + 1
            # default-profile loader verifies the result; model and auditor agree
            with seam:
                seam.begin_op(opi)
                rv = call(lambda: ManifestRecursiveLoader(os.path.join(w.root, 'Manifest')).assert_directory_verifies(''))
            opi += 1
            mv = Model(w.root, 'Manifest').verdict('')
            if not (rv[0] == 'ok' and rv[1] is True):
                violations.append(viol('policy.result-does-not-verify', '%s: default-profile verification %s' % (what, describe(rv)), sig='%s:%s' % (rv[0], rv[1])))
            elif mv.kind != 'OK':
                violations.append(viol('policy.model-disagrees', '%s: model says %s %r' % (what, mv.kind, dict(list(mv.offending.items())[:3])), sig=mv.kind))
            a = audit(w.root, 'Manifest', '', None)
            for code, p, detail in a.problems[:3]:
                violations.append(viol('policy.audit-' + code, '%s: %s %r %s' % (what, code, p, detail), sig=code))
            if len(violations) > 8:
                break
    nontrivial = sc['profile'] != 'default' and len(sc['roles']['manifest_dirs']) > 1 and counters.get('policy_checked', 0) > 0
    counters['profile.' + sc['profile']] = 1
    return mk_result([seam], violations, nontrivial, outcome=outcome, counters=counters, ops=opi)
