"""C10 Update never touches what it does not own.

Two batches in one check.  (a) Histories: verify / lookup / discarded-loader
operations and updates over history-machine worlds; the seam's write-event log
and byte+mtime snapshots decide what was touched; parsed entries before/after
decide DIST / IGNORE / TIMESTAMP / entry-type / out-of-scope preservation.
(b) Failing updates (fault enumeration): for every filesystem call of the
recorded fault-free trace of a history - including the write side of the save
step - the same world is run again with an OSError injected at that call.
"""
import copy

from .. import gen_update as GU
from ..common import mk_result, viol
from ..update_engine import run_history

ID = 'C10'
NEEDS_GPG = True
LEVEL = 'fault_enumeration'
FAMILIES = ('own',)
NO_SHRINK = ('hashes',)
RULE = ('each run = one history-machine world (tree + prior Manifest state + rounds of read-only operations '
        '[verify, keep-going verify, lookups, loader updated in memory and discarded] and updates) evaluated '
        'fault-free, then - for one world in fourteen - re-executed once per filesystem call of the recorded trace '
        '(read side: open/os.open/stat/fstat/scandir/iteration/read; write side: open-for-write, write, unlink) '
        'with an injected OSError at exactly that call; non-trivial = an update ran; distinct = distinct '
        'event-log digest of the fault-free run; the evidence counts faulted executions separately')
PLAN = {'quick': {'n': 1200, 'budget_s': 150, 'block': 6, 'det': 3, 'run_timeout_s': 900},
        'thorough': {'n': 30000, 'budget_s': 2400, 'block': 12, 'det': 4, 'run_timeout_s': 1800}}
ASSUMPTIONS = ['crash consistency of a half-written Manifest is not part of the property: after a write-side fault only "nothing but Manifest files was touched" is demanded',
               'a file counts as a Manifest file by name (Manifest, Manifest.*)']

READ_KINDS = ('open', 'os.open', 'stat', 'lstat', 'fstat', 'scandir', 'scandir.next', 'read')
WRITE_KINDS = ('open.w', 'write', 'unlink', 'truncate')
READ_ERRNOS = ['EACCES', 'EIO', 'ENOMEM', 'ELOOP', 'ENOTDIR', 'EMFILE', 'ESTALE', 'EPERM']
WRITE_ERRNOS = ['ENOSPC', 'EDQUOT', 'EROFS', 'EIO', 'EACCES']
MAX_PLANS = 400


def generate(rng, tier, idx):
    sc = GU.gen_history(rng, {'tree': {'p_dist_same_name': 0.35, 'p_timestamp': 0.4}, 'p_sibling_oob': 0.2})
    sc['prop'] = ID
    if sc['manifests'] and rng.random() < 0.08:
        # a validly signed top-level Manifest; all loaders of the history share one OpenPGP environment object
        sc['signed_top'] = True
    files = [t['p'] for t in sc['tree'] if t.get('k', 'file') == 'file']
    for r in sc['rounds']:
        pre = []
        for _ in range(rng.choice([0, 0, 1, 2])):
            k = rng.choice(['verify', 'verify-kg', 'lookup', 'discard', 'cli-verify'])
            po = {'op': k}
            if k == 'lookup' and files:
                po['path'] = rng.choice(files)
            if k == 'discard':
                po['hashes'] = rng.choice(GU.HASHSETS)
            pre.append(po)
        r['pre_ops'] = pre
    sc['enumerate'] = rng.random() < 0.07      # (every history is judged fault-free; one in fourteen also gets the fault enumeration)
    sc['errno_pick'] = rng.getrandbits(30)
    sc['per_site'] = 3 if tier == 'thorough' else 1
    return sc


def sites_of(events):
    seen = {}
    out = []
    for n, kind, rel, outcome in events:
        k = (kind, rel)
        seen[k] = seen.get(k, 0) + 1
        if kind in READ_KINDS or kind in WRITE_KINDS:
            out.append([kind, rel, seen[k]])
    return out


def execute(sc):
    h = run_history(sc, want_idempotence=False)
    vs = [v for v in h['violations'] if v['clause'].split('.')[0] in FAMILIES]
    c = dict(h['counters'])
    seams = list(h['seams'])
    nfault = 0
    plans = []
    if sc.get('only') is not None:
        plans = [dict(p) for p in sc['only']]
    elif sc.get('enumerate') and any('update' in r for r in sc.get('rounds', [])):
        h0 = run_history(copy.deepcopy(sc), want_idempotence=False, audits=False)
        sites = sites_of(h0['seams'][0].events)
        c['fault_sites'] = len(sites)
        pick = sc.get('errno_pick', 0)
        for i, s in enumerate(sites):
            pool = WRITE_ERRNOS if s[0] in WRITE_KINDS else READ_ERRNOS
            for j in range(sc.get('per_site', 1)):
                en = pool[(pick + i * 7 + j * 3) % len(pool)]
                plans.append({'kinds': [s[0]], 'path': s[1], 'nth': s[2], 'errno': en})
    if sc.get('only') is None and len(plans) > MAX_PLANS:
        # very long histories: every k-th site instead of all (keeps one world from taking minutes under load)
        c['fault_sites_strided'] = len(plans)
        step = -(-len(plans) // MAX_PLANS)
        plans = plans[::step]
    for plan in plans:
        hf = run_history(copy.deepcopy(sc), want_idempotence=False, faults=[plan], audits=False)
        sm = hf['seams'][0]
        if not sum(f_.get('_fired', 0) for f_ in sm.faults):
            c['fault_not_reached'] = c.get('fault_not_reached', 0) + 1
            continue
        nfault += 1
        seams.append(sm)
        kindc = 'write-side' if plan['kinds'][0] in WRITE_KINDS else 'read-side'
        c['faulted_runs.' + kindc] = c.get('faulted_runs.' + kindc, 0) + 1
        for v in hf['violations']:
            if v['clause'].split('.')[0] in FAMILIES:
                v = dict(v)
                v['detail'] = 'under fault %s %s #%s %s: %s' % (plan['kinds'][0], plan['path'], plan.get('nth'), plan['errno'], v['detail'])
                v['scenario_patch'] = {'only': [plan], 'enumerate': False}
                vs.append(v)
        if len(vs) > 6:
            break
    c['faulted_runs'] = nfault
    c['worlds'] = 1
    nontrivial = any(k.startswith('update.') for k in c)
    return mk_result(seams[:1] + seams[1:][:50], vs, nontrivial, outcome=h['outcome'], dontcare=h['zones'], counters=c,
                     ops=len(h['results']) + nfault)


def post_batch(ev, agg, tier):
    c = ev['coverage']
    c['fault_sites_enumerated'] = c['counters'].get('fault_sites', 0)
    c['faulted_executions'] = c['counters'].get('faulted_runs', 0)
    c['fault_free_histories'] = c['evaluations']
    c['evaluations'] = c['evaluations'] + c['counters'].get('faulted_runs', 0)
    c['exhaustive_note'] = 'fault placement is exhaustive over the recorded trace of each enumerated history (read and write side) up to 400 sites per history, every k-th site beyond that; histories and errnos are sampled'
    return None
