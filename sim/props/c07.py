"""C07 Every offending path is reported (keep-going mode) and the exit status
reflects any failure.

Same world machinery as C01, but 1-8 simultaneous corruptions spread over
several directories, a keyed permutation of each listing (so discrepancies lie
before and after each other in walk order), and a handler whose return value
follows a drawn policy.  Oracle: the multiset of paths handed to the handler
equals M-verify's offending set.
"""
import hashlib
import os

from gemato.recursiveloader import ManifestRecursiveLoader

from .. import gen_tree as GT
from ..common import call, mk_result, run_cli, viol, internal_violations
from ..model import Model, cli_discovers_root_top, psw
from ..oracles import write_violations, describe
from ..seam import Seam
from ..world import World, blocking_manifest

ID = 'C07'
LEVEL = 'exploration'
RULE = ('each run = generated tree + Manifest layout + 1-8 simultaneous storage corruptions in several '
        'directories + keyed permutation of every directory listing + handler policy (always False / '
        'always True / always None / mixed by path) + verified sub-path, through the library with a '
        'recording handler and through `gemato verify --keep-going`; non-trivial = the model found at '
        'least two offending paths or a structural error, outside don\'t-care zones; distinct = distinct '
        'seam event-log digest')
PLAN = {'quick': {'n': 10000, 'budget_s': 90, 'block': 40},
        'thorough': {'n': 800000, 'budget_s': 2400, 'block': 200}}
ASSUMPTIONS = ['M-verify (sim/model.py) defines the offending set; files that the mtime shortcut may skip are optional members']


def generate(rng, tier, idx):
    g = GT.gen_tree(rng, {'top': 'Manifest', 'max_dirs': 7, 'max_files': 12, 'p_conflict': 0.05, 'p_dup': 0.08, 'p_wrong_dup': 0.2, 'p_style': 0.12, 'p_listed_hidden': 0.5,
                          'p_second_manifest_ref': 0.15, 'p_second_manifest_ref_wrong': 0.4})
    info = g['info']
    nm = rng.choice([1, 2, 2, 3, 3, 4, 5, 6, 8])
    muts = GT.gen_mutations(rng, info, nm, allow_manifest=rng.random() < 0.15)
    subs = [''] + [d for d in info['view_dirs'] if d]
    sub = '' if rng.random() < 0.7 else rng.choice(subs)
    lm = None
    if rng.random() < 0.12:
        lm = rng.choice([-3, -1, 0, 1, 2])
    mount = None
    if rng.random() < 0.12:
        # one-file-system mode with another filesystem mounted on a directory of the tree: a structural problem
        # that keep-going mode must still raise
        vd = [d for d in info['view_dirs'] if d and not any(c.startswith('.') for c in d.split('/'))]
        if vd:
            mount = rng.choice(vd)
            topm_ = [m_ for m_ in g['manifests'] if m_['p'] == 'Manifest']
            if topm_ and rng.random() < 0.4:
                # ... and the top-level Manifest lists that very path as a FILE: the walk does not descend into it, the
                # entry check is the only place that sees its device
                topm_[0]['entries'].append({'tag': 'DATA', 'path': mount, 'size': 3, 'sums': {}})
    pool = None
    if rng.random() < 0.04:
        # a wide tree: more directories than one batch of the worker pool takes (64), discrepancies spread over them;
        # half of these worlds run on the shipped serial pool wrapper
        nw = rng.choice([63, 64, 65, 66, 129, 130, 200])
        topm = [m_ for m_ in g['manifests'] if m_['p'] == 'Manifest']
        if topm and not any(t_['p'].split('/')[0] == 'wide-dirs' for t_ in g['tree']):
            for j in range(nw):
                p_ = 'wide-dirs/d%03d/f' % j
                g['tree'].append({'p': p_, 'k': 'file', 'c': 'content %d' % j, 'mt': -5_000_000_000})
                topm[0]['entries'].append({'tag': 'DATA', 'path': p_, 'hashes': ['SHA256']})
            for j in rng.sample(range(nw), min(nw, rng.choice([3, 8, 20]))):
                k_ = rng.choice(['delete', 'rewrite', 'stray'])
                if k_ == 'stray':
                    muts.append({'m': 'add', 'p': 'wide-dirs/d%03d/stray' % j, 'k': 'file', 'c': 's'})
                elif k_ == 'delete':
                    muts.append({'m': 'delete', 'p': 'wide-dirs/d%03d/f' % j})
                else:
                    muts.append({'m': 'rewrite', 'p': 'wide-dirs/d%03d/f' % j, 'c': 'changed %d' % j})
            pool = rng.choice(['serial', 'serial', 'keyed'])
    return {'prop': ID, 'order_key': '%016x' % rng.getrandbits(64), 'top': 'Manifest', 'pool': pool,
            'chunks': rng.choice([None, None, None, 'mixed', 'tiny', 4096]), 'mount': mount,
            'tree': g['tree'], 'manifests': g['manifests'], 'muts': muts,
            'ops': [{'op': 'verify', 'sub': sub, 'last_mtime': lm,
                     'policy': rng.choice(['false', 'false', 'true', 'none', 'mixed', 'mixed']), 'slash': rng.random() < 0.3,
                     'api': 'both' if rng.random() < 0.6 else 'lib',
                     'multi': rng.choice([None, None, 'first', 'last'])}]}


def policy_value(policy, key, path):
    if policy == 'false':
        return False
    if policy == 'true':
        return True
    if policy == 'none':
        return None
    d = hashlib.sha256((key + '\0' + path).encode('utf8', 'surrogateescape')).digest()[0] % 3
    return (False, True, None)[d]


def execute(sc):
    violations = []
    zones = {}
    counters = {}
    outcome = []
    results = []
    judged = 0
    multi = 0
    with World(sc) as w:
        w.build()
        applied = 0
        applied_kinds = {}
        for m in sc.get('muts', []):
            if w.mutate(m):
                applied += 1
                kk = 'storage.' + m['m'] + ('->' + m['k'] if m['m'] in ('retype', 'add') and 'k' in m else '')
                applied_kinds[kk] = applied_kinds.get(kk, 0) + 1
        mnt = sc.get('mount')
        seam = Seam(w.root, order_key=sc['order_key'], virtual_root=True, read_chunks=sc.get('chunks'), pool=sc.get('pool'),
                    mounts=({mnt: 2001} if mnt else None), default_dev=(1001 if mnt else None))
        xkw = {'allow_xdev': False} if mnt else {}
        if blocking_manifest(w.root):
            return mk_result([seam], [], False, outcome='skipped: FIFO Manifest', dontcare={'fifo-manifest': 1})
        model = Model(w.root, 'Manifest')
        snap0 = w.snapshot(with_mtime=False)
        top_path = os.path.join(w.root, 'Manifest')
        for i, op in enumerate(sc.get('ops', [])):
            sub = op.get('sub', '')
            lm = op.get('last_mtime')
            lm_abs = None if lm is None else (w.epoch_ns / 1e9 + lm)
            pol = op.get('policy', 'false')
            v = model.verdict(sub, lm_abs)
            calls = []

            def handler(e):
                calls.append(e.path)
                return policy_value(pol, sc['order_key'], e.path)
            with seam:
                seam.begin_op(i)

                def lib():
                    m = ManifestRecursiveLoader(top_path, **xkw)
                    # (the same directory spelled with a trailing slash, as shell completion leaves it)
                    return m.assert_directory_verifies(sub + '/' if (sub and op.get('slash')) else sub, fail_handler=handler, last_mtime=lm_abs)
                r = call(lib)
                cli = None
                real_sub = os.path.realpath(os.path.join(w.root, sub)) == os.path.normpath(os.path.join(w.root, sub))
                if real_sub and sub and not cli_discovers_root_top(w.root, sub):
                    real_sub = False
                if op.get('api') == 'both' and lm is None and real_sub:
                    target = os.path.join(w.root, sub) if sub else w.root
                    cli = run_cli(['verify', '--keep-going'] + (['-x'] if mnt else []) + [target])
                    cli2 = None
                    if op.get('multi') and not mnt:
                        # the same request with a second, consistent tree named on the command line
                        t0 = w.other_tree()
                        cli2 = run_cli(['verify', '--keep-going'] + ([target, t0] if op['multi'] == 'first' else [t0, target]))
            results.append(r)
            for z in set(v.zones):
                zones[z] = zones.get(z, 0) + 1
            counters['model.' + v.kind] = counters.get('model.' + v.kind, 0) + 1
            what = 'keep-going verify(%r, policy=%s)' % (sub, pol)
            outcome.append([v.kind, r[0], r[1] if r[0] != 'ok' else repr(r[1]), sorted(calls), (cli or {}).get('rc')])
            if r[0] == 'INTERNAL':
                continue
            if mnt:
                is_xdev = r[0] == 'GE' and r[1] == 'ManifestCrossDevice'
                mp_ = os.path.join(w.root, mnt)
                if v.kind in ('OK', 'MISMATCH') and psw(mnt, sub) and os.path.isdir(mp_) and \
                        os.path.realpath(mp_) == os.path.normpath(mp_) and \
                        not any(e_['tag'] == 'IGNORE' and psw(mnt, p_) for p_, e_ in v.entries.items()):
                    counters['foreign_directory_in_scope'] = counters.get('foreign_directory_in_scope', 0) + 1
                    if not is_xdev and ((r[0] == 'OS' and (r[1] in v.oserr or (r[1] == 'ENOTDIR' and getattr(v, 'enotdir', False)) or r[1] == 'ELOOP'))
                                        or (r[0] == 'GE' and r[1] == 'UnsupportedHash' and (v.unsupported or 'unsupported-hash' in v.offending.values()))):
                        zones['verdict:other-failure-first'] = zones.get('verdict:other-failure-first', 0) + 1
                    elif not is_xdev:
                        violations.append(viol('keepgoing.structural-not-raised',
                                               '%s (one-file-system mode): %r is on another device, gemato %s; handler calls %r' % (
                                                   what, mnt, describe(r), calls), sig='xdev->%s:%s' % (r[0], r[1] if r[0] != 'ok' else r[1])))
                    elif cli is not None and cli.get('kind') == 'ok' and cli.get('rc') == 0:
                        violations.append(viol('cli.keepgoing', '%s: CLI -x --keep-going exit 0 with a foreign directory in scope' % what, sig='xdev-cli'))
                    else:
                        judged += 1
                    continue
                if is_xdev:
                    zones['foreign-device-reached-otherwise'] = zones.get('foreign-device-reached-otherwise', 0) + 1
                    continue
            if v.kind in ('DONTCARE', 'FAIL-ANY'):
                zones['verdict:' + v.kind.lower()] = zones.get('verdict:' + v.kind.lower(), 0) + 1
                if v.kind == 'FAIL-ANY' and r[0] == 'ok' and r[1] is True:
                    violations.append(viol('verify.false-success', '%s: top-level Manifest unusable but success' % what))
                continue
            if v.kind in ('CHAIN', 'INCOMPATIBLE', 'LOOP'):
                want = {'CHAIN': 'ManifestMismatch', 'INCOMPATIBLE': 'ManifestIncompatibleEntry',
                        'LOOP': 'ManifestSymlinkLoop'}[v.kind]
                ok = (r[0] == 'GE' and r[1] == want)
                if v.kind == 'CHAIN' and ok and r[2].path not in v.chain:
                    ok = False
                if v.kind == 'CHAIN' and not ok:
                    if ('registered-manifest-unparseable' in v.zones and r[0] in ('GE', 'CODEC', 'DECODE')) or \
                       ('manifest-beneath-file' in v.zones and r[0] == 'OS' and r[1] == 'ENOTDIR') or \
                       (r[0] == 'GE' and r[1] == 'UnsupportedHash' and v.unsupported) or \
                       (r[0] == 'OS' and r[1] in v.oserr):
                        ok = True
                if v.kind == 'LOOP' and not ok and r[0] == 'OS' and (r[1] in v.oserr or (r[1] == 'ENOTDIR' and getattr(v, 'enotdir', False))):
                    ok = True
                if v.kind == 'LOOP' and not ok and r[0] == 'GE' and r[1] == 'UnsupportedHash' and \
                        (v.unsupported or 'unsupported-hash' in v.offending.values()):
                    ok = True       # (an entry with a hash this installation cannot compute, met before the loop)
                if not ok:
                    violations.append(viol('keepgoing.structural-not-raised',
                                           '%s: model says %s (%r), gemato %s; handler calls %r' % (what, v.kind, v.chain, describe(r), calls),
                                           sig='%s->%s:%s' % (v.kind, r[0], r[1])))
                else:
                    judged += 1
                    multi += 1
                continue
            # OK / MISMATCH: compare the multiset of reported paths
            if r[0] == 'OS' and ((r[1] == 'ENOTDIR' and getattr(v, 'enotdir', False)) or r[1] in v.oserr):
                zones['verdict:genuine-os-error'] = zones.get('verdict:genuine-os-error', 0) + 1
                continue
            if r[0] == 'GE' and r[1] == 'UnsupportedHash' and v.unsupported:
                zones['verdict:unsupported-hash-in-entry'] = zones.get('verdict:unsupported-hash-in-entry', 0) + 1
                continue
            if r[0] == 'GE' and r[1] == 'ManifestMismatch' and r[2].path in v.bad_refs:
                zones['verdict:wrong-second-manifest-reference-raised-at-load'] = zones.get('verdict:wrong-second-manifest-reference-raised-at-load', 0) + 1
                continue
            if r[0] != 'ok':
                violations.append(viol('keepgoing.raised', '%s: model says %s, gemato raised %s' % (what, v.kind, describe(r)),
                                       sig='%s:%s' % (r[0], r[1])))
                continue
            must = set(v.offending)
            may = set(v.maybe)
            dup = sorted(p for p in set(calls) if calls.count(p) > 1)
            missing = sorted(must - set(calls))
            extra = sorted(set(calls) - must - may)
            if dup:
                violations.append(viol('keepgoing.reported-twice', '%s: handler called more than once for %r' % (what, dup), sig='dup'))
            if missing:
                violations.append(viol('keepgoing.not-reported', '%s: offending paths never handed to the handler: %r (reported: %r)' % (
                    what, missing, sorted(calls)), sig='missing'))
            if extra:
                violations.append(viol('keepgoing.spurious-report', '%s: handler called for paths that match: %r' % (what, extra), sig='extra'))
            any_false = any(policy_value(pol, sc['order_key'], p) is False for p in calls)
            if (r[1] is False) != any_false and not (dup or missing or extra):
                violations.append(viol('keepgoing.wrong-result', '%s: returned %r but handler returned False for %s call(s)' % (
                    what, r[1], 'some' if any_false else 'no'), sig='ret=%r' % (r[1],)))
            judged += 1
            if len(must) >= 2:
                multi += 1
            if cli is not None and v.bad_refs:
                zones['cli-skipped-wrong-second-manifest-reference'] = zones.get('cli-skipped-wrong-second-manifest-reference', 0) + 1
            elif cli is not None:
                if cli['kind'] == 'INTERNAL':
                    results.append(('INTERNAL', cli['name'], cli['exc']))
                elif cli['kind'] != 'ok':
                    violations.append(viol('cli.keepgoing', '%s: CLI raised %s:%s' % (what, cli['kind'], cli.get('name')), sig=str(cli.get('name'))))
                else:
                    nerr = sum(1 for lv, msg in cli['log'] if lv == 'ERROR' and msg.startswith('Manifest mismatch for '))
                    want_rc = 1 if must else 0
                    if not may and (cli['rc'] != want_rc or nerr != len(must)):
                        violations.append(viol('cli.keepgoing', '%s: CLI rc=%r with %d mismatch messages; model has %d offending paths %r' % (
                            what, cli['rc'], nerr, len(must), sorted(must)[:6]), sig='rc=%r' % cli['rc']))
                    counters['cli'] = counters.get('cli', 0) + 1
                    if cli2 is not None and cli2['kind'] == 'ok':
                        nerr2 = sum(1 for lv, msg in cli2['log'] if lv == 'ERROR' and msg.startswith('Manifest mismatch for '))
                        if (cli2['rc'], nerr2) != (cli['rc'], nerr):
                            violations.append(viol('cli.keepgoing', '%s: alone rc=%r with %d mismatch messages, with a consistent second tree on the command line (%s) rc=%r with %d' % (
                                what, cli['rc'], nerr, op['multi'], cli2['rc'], nerr2), sig='multi-path'))
                        counters['cli-multi-path'] = counters.get('cli-multi-path', 0) + 1
                    elif cli2 is not None and cli2['kind'] != 'INTERNAL':
                        violations.append(viol('cli.keepgoing', '%s: CLI with two trees raised %s:%s' % (what, cli2['kind'], cli2.get('name')), sig='multi-path-raised'))
        violations += internal_violations(results)
        violations += write_violations(seam, snap0, w.snapshot(with_mtime=False), 'verify --keep-going')
    counters['mutations_applied'] = applied
    _res_faults = applied_kinds
    counters['runs_with_2+_offending_or_structural'] = multi
    if seam.stats.get('leaked_fds'):
        # conservation: one descriptor left open per reported path ends a keep-going run over many offending paths with EMFILE
        violations.append(viol('keepgoing.descriptor-leak', '%d file descriptor(s) opened by the verification were never closed' % seam.stats['leaked_fds'], sig='fd'))
    res = mk_result([seam], violations, judged > 0 and multi > 0, outcome=outcome, dontcare=zones,
                    counters=counters, ops=len(sc.get('ops', [])))
    for k_, v_ in _res_faults.items():
        res['faults_fired'][k_] = res['faults_fired'].get(k_, 0) + v_
    return res
