"""The seam: every filesystem / clock interaction of the code under test goes
through here while a run is in progress.

Nothing in here draws random numbers.  Orders, read chunking and clock ticks
are pure functions of (order_key, stable arguments); faults come from the
explicit fault plan of the scenario.
"""
import builtins
import errno as _errno
import fcntl as _fcntl
import hashlib
import io
import os
import stat as _stat
import datetime as _datetime

# originals, captured once at import
_o = {
    'os.open': os.open, 'os.stat': os.stat, 'os.lstat': os.lstat,
    'os.fstat': os.fstat, 'os.scandir': os.scandir, 'os.unlink': os.unlink,
    'os.remove': os.remove, 'os.rename': os.rename, 'os.replace': os.replace,
    'os.close': os.close, 'os.utime': os.utime, 'os.mkdir': os.mkdir,
    'os.rmdir': os.rmdir, 'os.symlink': os.symlink, 'os.link': os.link,
    'os.truncate': os.truncate, 'os.chmod': os.chmod,
    'open': builtins.open, 'io.open': io.open, 'fcntl': _fcntl.fcntl,
    'os.listdir': os.listdir, 'os.readlink': os.readlink,
}
orig = _o

WRITE_KINDS = frozenset(['open.w', 'os.open.w', 'write', 'truncate', 'unlink', 'rename',
                         'mkdir', 'rmdir', 'symlink', 'link', 'utime',
                         'chmod'])


class SimStepLimit(BaseException):
    pass


class SimHarnessError(Exception):
    pass


def _h(*parts):
    m = hashlib.sha256()
    for p in parts:
        if isinstance(p, str):
            p = p.encode('utf8', 'surrogateescape')
        elif not isinstance(p, bytes):
            p = str(p).encode()
        m.update(p)
        m.update(b'\0')
    return m.digest()


def keyed_order(order_key, ctx, names):
    """Deterministic permutation of names, function of its arguments only."""
    if order_key is None:
        return sorted(names)
    return sorted(names, key=lambda n: _h(order_key, ctx, n))


_TICKS_NS = (1_000, 10_000, 1_000_000, 3_000_000, 40_000_000, 250_000_000,
             999_000_000, 1_000_000_000, 3_000_000_000)


class Clock:
    """Discrete simulated wall clock (UTC, ns)."""

    def __init__(self, epoch_ns=1_600_000_000_000_000_000, key='', mode='mixed'):
        self.epoch_ns = epoch_ns
        self.now_ns = epoch_ns
        self.key = key
        self.mode = mode
        self.n = 0

    def tick(self):
        self.n += 1
        if self.mode == 'micro':
            self.now_ns += 1000
        else:
            d = _h(self.key, 'tick', self.n)
            self.now_ns += _TICKS_NS[d[0] % len(_TICKS_NS)]
        return self.now_ns

    def advance(self, dt_ns):
        self.now_ns += int(dt_ns)

    def utcnow(self):
        return _datetime.datetime.utcfromtimestamp(self.now_ns // 10**9).replace(
            microsecond=(self.now_ns % 10**9) // 1000)


def make_datetime_shim(clock):
    """Object standing in for the `datetime` module inside gemato.cli /
    utils: only `.datetime.utcnow()` differs."""
    real = _datetime

    class _SimDateTime(real.datetime):
        @classmethod
        def utcnow(cls):
            return clock.utcnow()

        @classmethod
        def now(cls, tz=None):
            if tz is None:
                return real.datetime.fromtimestamp(clock.now_ns / 1e9)
            return real.datetime.fromtimestamp(clock.now_ns / 1e9, tz)

    class _Shim:
        datetime = _SimDateTime
        timedelta = real.timedelta
        timezone = real.timezone
        date = real.date
        time = real.time
        UTC = getattr(real, 'UTC', None)

    return _Shim


class StatProxy:
    __slots__ = ('_st', 'st_dev', 'st_size', 'st_ino')

    def __init__(self, st, dev, size=None, ino=None):
        self._st = st
        self.st_dev = dev
        self.st_size = st.st_size if size is None else size
        self.st_ino = st.st_ino if ino is None else ino

    def __getattr__(self, name):
        return getattr(self._st, name)

    def __getitem__(self, i):
        if i == 2:
            return self.st_dev
        if i == 6:
            return self.st_size
        if i == 1:
            return self.st_ino
        return self._st[i]


class SimRawIO(io.RawIOBase):
    """Raw layer over a real FileIO; short reads, read/write faults and
    events happen here."""

    def __init__(self, seam, fio, rel, writing, stamp=True):
        super().__init__()
        self._seam = seam
        self._fio = fio
        self._rel = rel
        self._writing = writing
        self._nread = 0
        self._stamp = stamp
        self._path = None
        self.name = fio.name
        self.mode = fio.mode

    def readable(self):
        return self._fio.readable()

    def writable(self):
        return self._fio.writable()

    def seekable(self):
        return self._fio.seekable()

    def fileno(self):
        return self._fio.fileno()

    def isatty(self):
        return False

    def seek(self, pos, whence=0):
        return self._fio.seek(pos, whence)

    def tell(self):
        return self._fio.tell()

    def truncate(self, size=None):
        self._seam._call('truncate', self._rel)
        return self._fio.truncate(size)

    def readinto(self, b):
        s = self._seam
        s._call('read', self._rel)
        n = len(b)
        if n == 0:
            return 0
        lim = s._read_limit(self._rel, self._nread, n)
        self._nread += 1
        if lim < n:
            s.stats['short_reads'] = s.stats.get('short_reads', 0) + 1
            mv = memoryview(b)[:lim]
            return self._fio.readinto(mv)
        return self._fio.readinto(b)

    def write(self, b):
        self._seam._call('write', self._rel)
        return self._fio.write(b)

    def flush(self):
        if self.closed:
            raise ValueError('flush of closed file')
        if self._writing and not self._fio.closed:
            pass
        return None

    def close(self):
        if self.closed:
            return
        s = self._seam
        try:
            super().close()
        finally:
            fd = None
            try:
                fd = self._fio.fileno()
            except Exception:
                pass
            path = self._path
            self._fio.close()
            if fd is not None:
                s._fds.pop(fd, None)
            if s.active:
                s._event('close.w' if self._writing else 'close', self._rel, 'ok')
                if s.hook is not None and not s._inside:
                    s._inside += 1
                    try:
                        s.hook(s, s.n, 'close.w' if self._writing else 'close', self._rel)
                    finally:
                        s._inside -= 1
                if self._writing and self._stamp and path is not None:
                    # stamp the written file with the simulated clock
                    try:
                        t = s.clock.now_ns
                        _o['os.utime'](path, ns=(t, t))
                    except OSError:
                        pass


class BrokenDirEntry:
    """A directory entry whose type cannot be found out (no d_type, and the stat it implies fails)."""

    def __init__(self, seam, entry, rel):
        self._seam = seam
        self._e = entry
        self._rel = rel
        self.name = entry.name
        self.path = entry.path

    def _fail(self, what):
        s = self._seam
        s.stats['broken_entry_probed'] = s.stats.get('broken_entry_probed', 0) + 1
        s.fired['entry-type-probe:EIO'] = s.fired.get('entry-type-probe:EIO', 0) + 1
        s._event('entry.' + what, self._rel, 'FAULT:EIO')
        raise OSError(_errno.EIO, os.strerror(_errno.EIO), self.path)

    def is_dir(self, follow_symlinks=True):
        self._fail('is_dir')

    def is_file(self, follow_symlinks=True):
        self._fail('is_file')

    def stat(self, follow_symlinks=True):
        self._fail('stat')

    def is_symlink(self):
        return False

    def inode(self):
        return self._e.inode()

    def __fspath__(self):
        return self.path

    def __repr__(self):
        return '<BrokenDirEntry %r>' % self.name


class ScandirProxy:
    def __init__(self, seam, path, rel, entries):
        self._seam = seam
        self._rel = rel
        self._entries = entries
        self._i = 0
        self._closed = False

    def __iter__(self):
        return self

    def __next__(self):
        if self._closed or self._i >= len(self._entries):
            raise StopIteration
        self._seam._call('scandir.next', self._rel)
        e = self._entries[self._i]
        self._i += 1
        return e

    def close(self):
        self._closed = True

    def __enter__(self):
        return self

    def __exit__(self, *a):
        self.close()


def make_sim_pool(seam):
    """Stand-in for gemato.util.MultiprocessingPoolWrapper: the same interface, one process, but the completion
    order of imap_unordered() - which its contract leaves open - is decided by the run's key.  Inputs are pulled in
    windows (how far a pool reads ahead of the results it has handed out), evaluated in one keyed permutation of the
    window and handed out in another.  An exception raised by the input iterator surfaces after the results of the
    tasks submitted before it."""

    class SimPool:
        __slots__ = []

        def __init__(self, processes):
            pass

        def __enter__(self):
            return self

        def __exit__(self, exc_type, exc_value, exc_cb):
            pass

        def map(self, func, it, chunksize=None):
            return map(func, it)

        def imap_unordered(self, func, it, chunksize=None):
            seam.pool_calls += 1
            call_no = seam.pool_calls
            key = seam.order_key
            win = (1, 2, 3, 8, 64, 10**9, 10**9)[_h(key, 'poolw', seam.op_index, call_no)[0] % 7]
            it = iter(it)
            bno = 0
            while True:
                batch = []
                exc = None
                done = False
                try:
                    while len(batch) < win:
                        batch.append(next(it))
                except StopIteration:
                    done = True
                except Exception as e:
                    exc = e
                    done = True
                bno += 1
                idx = sorted(range(len(batch)), key=lambda j: _h(key, 'poolx', seam.op_index, call_no, bno, j))
                res = {}
                for j in idx:
                    res[j] = func(batch[j])
                out = sorted(range(len(batch)), key=lambda j: _h(key, 'pooly', seam.op_index, call_no, bno, j))
                if len(batch) > 1 and (idx != list(range(len(batch))) or out != list(range(len(batch)))):
                    seam.stats['pool_batches_reordered'] = seam.stats.get('pool_batches_reordered', 0) + 1
                    seam.fired['pool-completion-reordered'] = seam.fired.get('pool-completion-reordered', 0) + 1
                for j in out:
                    yield res[j]
                if exc is not None:
                    raise exc
                if done:
                    return
    return SimPool


class Seam:
    """Context manager that owns filesystem, clock and order for one run."""

    def __init__(self, root, order_key=None, faults=None, mounts=None,
                 clock=None, virtual_root=False, step_cap=None,
                 read_chunks=None, stamp_writes=True, zero_size=None, size_override=None,
                 default_dev=None, hook=None, order_alias=(), patch_time=False, pool=None, ino_alias=None,
                 broken_entries=None):
        self.root = os.path.realpath(root)
        # rel paths whose directory entry cannot be classified: is_dir()/is_file()/stat() of the DirEntry raise EIO, as on a
        # filesystem that reports no d_type (NFS, FUSE) when the implied stat fails.  Combined by the caller with a
        # persistent fault on open/stat of the same path.
        self.broken_entries = set(broken_entries or ())
        # completion order of the loader's worker pool: 'keyed' (permuted by the run's key) or 'serial' (as shipped)
        if pool is None:
            pool = 'keyed' if (order_key is not None and os.environ.get('VERIF_POOL', '1') != '0'
                               and _h(order_key, 'pool-mode')[0] % 3 != 0) else 'serial'
        self.pool = pool
        self.pool_calls = 0
        self.order_key = order_key
        self.faults = [dict(f) for f in (faults or [])]
        for f in self.faults:
            f['_fired'] = 0
            f['_seen'] = 0
        self.ino_alias = dict(ino_alias or {})   # rel path (resolved) -> rel path whose inode number it reports
        self.mounts = dict(mounts or {})   # rel path inside world -> dev id
        self.clock = clock or Clock(key=str(order_key), mode='micro')
        self.virtual_root = virtual_root
        self.step_cap = step_cap
        self.read_chunks = read_chunks      # None | 'tiny' | 'mixed' | int
        self.stamp_writes = stamp_writes
        self.zero_size = set(zero_size or ())  # rel paths whose st_size reads 0
        self.size_override = dict(size_override or {})   # rel path -> st_size reported by stat/fstat (file changed size since)
        self.hook = hook                    # callable(seam, n, kind, rel) after each call
        self.default_dev = default_dev
        self.order_alias = tuple(order_alias)   # replica prefixes that share one enumeration order
        self.patch_time = patch_time            # time.time() reads the simulated clock (gzip headers, ...)
        self.events = []
        self.event_ops = []
        self.n = 0
        self.op_n = 0
        self.stats = {}
        self.fired = {}
        self.active = False
        self._inside = 0
        self._fds = {}      # fd -> (rel, realpath)
        self._visits = {}
        self._saved = None
        self.op_index = 0
        self.write_events = []
        if self.mounts or virtual_root:
            if self.default_dev is None:
                self.default_dev = _o['os.stat'](self.root).st_dev

    # ---- bookkeeping -------------------------------------------------
    def rel(self, path):
        """Relative path inside the world or None."""
        if isinstance(path, int):
            t = self._fds.get(path)
            return t[0] if t else None
        try:
            p = os.fspath(path)
        except TypeError:
            return None
        if isinstance(p, bytes):
            p = os.fsdecode(p)
        if not os.path.isabs(p):
            p = os.path.join(os.getcwd(), p)
        p = os.path.normpath(p)
        if p == self.root:
            return '.'
        if p.startswith(self.root + '/'):
            return p[len(self.root) + 1:]
        return None

    def _event(self, kind, rel, outcome):
        self.events.append((self.n, kind, rel, outcome))
        self.event_ops.append((self.op_index, self.op_n))      # (not part of the digest: where in which operation the call was made)
        if kind in WRITE_KINDS:
            self.write_events.append((self.op_index, kind, rel, outcome))

    def _call(self, kind, rel, path=None):
        """Account for one seam call; may raise an injected fault."""
        self.n += 1
        self.op_n += 1
        if self.step_cap is not None and self.op_n > self.step_cap:
            self._event(kind, rel, 'STEP-LIMIT')
            raise SimStepLimit(self.op_n)
        self.clock.tick()
        for f in self.faults:
            if self._match(f, kind, rel):
                f['_fired'] += 1
                en = f['errno']
                self.fired[kind + ':' + en] = self.fired.get(kind + ':' + en, 0) + 1
                self._event(kind, rel, 'FAULT:' + en)
                code = getattr(_errno, en)
                raise OSError(code, os.strerror(code), path if path is not None else rel)
        self._event(kind, rel, 'ok')
        if self.hook is not None:
            self._inside += 1
            try:
                self.hook(self, self.n, kind, rel)
            finally:
                self._inside -= 1

    def _match(self, f, kind, rel):
        if 'at' in f:                      # global call index
            return f['at'] == self.n
        if 'op_at' in f:                   # call index within op k
            return f['op_at'] == [self.op_index, self.op_n]
        kinds = f.get('kinds')
        if kinds is not None and kind not in kinds:
            return False
        if 'path' in f and f['path'] != rel:
            return False
        if 'under' in f and not (rel == f['under'] or (rel or '').startswith(f['under'] + '/')):
            return False
        f['_seen'] += 1
        if f.get('persistent'):
            return True
        return f['_seen'] == f.get('nth', 1)

    def begin_op(self, index, step_cap=None):
        self.op_index = index
        self.op_n = 0
        self.step_cap = step_cap
        self.pool_calls = 0

    def _read_limit(self, rel, nread, want):
        rc = self.read_chunks
        if rc is None:
            return want
        if isinstance(rc, int):
            return max(1, min(want, rc))
        d = _h(self.order_key, 'chunk', rel, nread)
        v = int.from_bytes(d[:4], 'big')
        if rc == 'tiny':
            return max(1, min(want, 1 + v % 7))
        # mixed: adversarial sizes
        table = (1, 2, 3, 7, 100, 4095, 4096, 4097, 65535, 65536, 65537, want)
        return max(1, min(want, table[v % len(table)]))

    def _dev_for(self, realpath):
        if not self.mounts:
            return self.default_dev
        if realpath == self.root:
            r = '.'
        elif realpath.startswith(self.root + '/'):
            r = realpath[len(self.root) + 1:]
        else:
            return self.default_dev
        best = None
        bl = -1
        for m, dev in self.mounts.items():
            if r == m or r.startswith(m + '/'):
                if len(m) > bl:
                    best, bl = dev, len(m)
        return self.default_dev if best is None else best

    def _wrap_stat(self, st, realpath, rel):
        size = None
        if rel in self.zero_size and _stat.S_ISREG(st.st_mode):
            size = 0
        elif rel in self.size_override and _stat.S_ISREG(st.st_mode):
            size = self.size_override[rel]
        ino = None
        if self.ino_alias:
            # inode numbers are unique per filesystem only: an object on another device may carry the number of
            # an object of this one (two filesystem roots, say)
            rr = os.path.relpath(realpath, self.root)
            if rr in self.ino_alias:
                ino = _o['os.stat'](os.path.join(self.root, self.ino_alias[rr])).st_ino
        if self.default_dev is None and size is None and ino is None:
            return st
        dev = st.st_dev if self.default_dev is None else self._dev_for(realpath)
        return StatProxy(st, dev, size, ino)

    def _realpath(self, p):
        self._inside += 1
        try:
            return os.path.realpath(p)
        finally:
            self._inside -= 1

    # ---- patched functions ---------------------------------------------
    def _os_open(self, path, flags, mode=0o777, *, dir_fd=None):
        rel = None if (self._inside or dir_fd is not None) else self.rel(path)
        if rel is None:
            return _o['os.open'](path, flags, mode, dir_fd=dir_fd)
        writing = bool(flags & (os.O_WRONLY | os.O_RDWR | os.O_CREAT | os.O_TRUNC | os.O_APPEND))
        self._call('os.open.w' if writing else 'os.open', rel, path)
        try:
            fd = _o['os.open'](path, flags, mode)
        except OSError as e:
            self.events[-1] = self.events[-1][:3] + ('err:' + _errno.errorcode.get(e.errno, str(e.errno)),)
            raise
        self._fds[fd] = (rel, self._realpath(path))
        return fd

    def _os_close(self, fd):
        t = self._fds.pop(fd, None) if not self._inside else None
        if t is not None:
            self._event('os.close', t[0], 'ok')
        return _o['os.close'](fd)

    def _os_stat(self, path, *, dir_fd=None, follow_symlinks=True):
        if self._inside or dir_fd is not None:
            return _o['os.stat'](path, dir_fd=dir_fd, follow_symlinks=follow_symlinks)
        if isinstance(path, int):
            return self._os_fstat(path)
        if self.virtual_root:
            try:
                p_ = os.fspath(path)
                # (also the real root reached by climbing with '..' from a tree outside the world)
                if p_ == '/' or (isinstance(p_, str) and p_.endswith('/..') and os.path.normpath(p_) == '/'):
                    st = _o['os.stat'](self.root)
                    return self._wrap_stat(st, self.root, '.')
            except TypeError:
                pass
        rel = self.rel(path)
        if rel is None:
            return _o['os.stat'](path, follow_symlinks=follow_symlinks)
        self._call('stat' if follow_symlinks else 'lstat', rel, path)
        try:
            st = _o['os.stat'](path, follow_symlinks=follow_symlinks)
        except OSError as e:
            self.events[-1] = self.events[-1][:3] + ('err:' + _errno.errorcode.get(e.errno, str(e.errno)),)
            raise
        if self.default_dev is None and not self.zero_size and not self.size_override:
            return st
        rp = self._realpath(path) if follow_symlinks else os.path.join(
            self._realpath(os.path.dirname(os.path.abspath(path))), os.path.basename(path))
        relr = self._rel_of_real(rp)
        return self._wrap_stat(st, rp, relr)

    def _rel_of_real(self, rp):
        if rp == self.root:
            return '.'
        if rp.startswith(self.root + '/'):
            return rp[len(self.root) + 1:]
        return None

    def _os_lstat(self, path, *, dir_fd=None):
        return self._os_stat(path, dir_fd=dir_fd, follow_symlinks=False)

    def _os_fstat(self, fd):
        t = self._fds.get(fd) if not self._inside else None
        if t is None:
            return _o['os.fstat'](fd)
        self._call('fstat', t[0])
        st = _o['os.fstat'](fd)
        return self._wrap_stat(st, t[1], self._rel_of_real(t[1]))

    def _os_scandir(self, path='.'):
        rel = None if self._inside else self.rel(path)
        if rel is None:
            return _o['os.scandir'](path)
        self._call('scandir', rel, path)
        try:
            with _o['os.scandir'](path) as it:
                entries = list(it)
        except OSError as e:
            self.events[-1] = self.events[-1][:3] + ('err:' + _errno.errorcode.get(e.errno, str(e.errno)),)
            raise
        v = self._visits.get(rel, 0)
        self._visits[rel] = v + 1
        if self.order_key is None:
            entries.sort(key=lambda e: e.name)
        else:
            crel = rel
            for pref in self.order_alias:
                if rel == pref or rel.startswith(pref + '/'):
                    crel = rel[len(pref):]
                    break
            ctx = crel + '#' + str(v)
            natural = [e.name for e in entries]
            entries.sort(key=lambda e: _h(self.order_key, ctx, e.name))
            if len(entries) > 1 and [e.name for e in entries] != sorted(natural):
                self.stats['permuted_listings'] = self.stats.get('permuted_listings', 0) + 1
        if self.broken_entries:
            entries = [BrokenDirEntry(self, e, (rel + '/' if rel not in ('', '.') else '') + e.name)
                       if ((rel + '/' if rel not in ('', '.') else '') + e.name) in self.broken_entries else e for e in entries]
        return ScandirProxy(self, path, rel, entries)

    def _os_listdir(self, path='.'):
        rel = None if self._inside else self.rel(path)
        if rel is None:
            return _o['os.listdir'](path)
        self._call('scandir', rel, path)
        names = _o['os.listdir'](path)
        v = self._visits.get(rel, 0)
        self._visits[rel] = v + 1
        return keyed_order(self.order_key, rel + '#' + str(v), names)

    def _mk_write1(self, kind, oname):
        def fn(path, *a, **kw):
            rel = None if self._inside else self.rel(path)
            if rel is None:
                return _o[oname](path, *a, **kw)
            self._call(kind, rel, path)
            return _o[oname](path, *a, **kw)
        return fn

    def _os_rename(self, src, dst, **kw):
        rs = None if self._inside else self.rel(src)
        rd = None if self._inside else self.rel(dst)
        if rs is None and rd is None:
            return _o['os.rename'](src, dst, **kw)
        self._call('rename', '%s -> %s' % (rs, rd), src)
        return _o['os.rename'](src, dst, **kw)

    def _os_symlink(self, src, dst, *a, **kw):
        rd = None if self._inside else self.rel(dst)
        if rd is None:
            return _o['os.symlink'](src, dst, *a, **kw)
        self._call('symlink', rd, dst)
        return _o['os.symlink'](src, dst, *a, **kw)

    def _open(self, file, mode='r', buffering=-1, encoding=None, errors=None,
              newline=None, closefd=True, opener=None):
        if self._inside or opener is not None:
            return _o['open'](file, mode, buffering, encoding, errors, newline,
                              closefd, opener)
        if isinstance(file, int):
            t = self._fds.get(file)
            if t is None:
                return _o['open'](file, mode, buffering, encoding, errors,
                                  newline, closefd, opener)
            rel, rp = t
        else:
            rel = self.rel(file)
            if rel is None:
                return _o['open'](file, mode, buffering, encoding, errors,
                                  newline, closefd, opener)
            rp = None
        m = set(mode)
        binary = 'b' in m
        writing = bool(m & set('wax+'))
        if m - set('rwbt') or ('r' in m and 'w' in m) or buffering == 0:
            # unusual mode: pass through but still account for it
            self._call('open.w' if writing else 'open', rel,
                       file if not isinstance(file, int) else None)
            return _o['open'](file, mode, buffering, encoding, errors, newline,
                              closefd, opener)
        self._call('open.w' if writing else 'open', rel,
                   file if not isinstance(file, int) else None)
        try:
            fio = io.FileIO(file, 'w' if writing else 'r', closefd=closefd)
        except OSError as e:
            self.events[-1] = self.events[-1][:3] + ('err:' + _errno.errorcode.get(e.errno, str(e.errno)),)
            raise
        raw = SimRawIO(self, fio, rel, writing, stamp=self.stamp_writes)
        if rp is None:
            rp = self._realpath(file)
        raw._path = rp
        self._fds[fio.fileno()] = (rel, rp)
        bufsize = io.DEFAULT_BUFFER_SIZE if buffering < 0 else max(buffering, 2)
        if writing:
            buf = io.BufferedWriter(raw, bufsize)
        else:
            buf = io.BufferedReader(raw, bufsize)
        if binary:
            return buf
        text = io.TextIOWrapper(buf, encoding, errors, newline,
                                line_buffering=(buffering == 1))
        text.mode = mode
        return text

    def _fcntl(self, fd, cmd, arg=0):
        t = self._fds.get(fd) if not self._inside else None
        if t is None:
            return _o['fcntl'](fd, cmd, arg)
        self._call('fcntl', t[0])
        return _o['fcntl'](fd, cmd, arg)

    # ---- install / uninstall ----------------------------------------------
    def __enter__(self):
        assert self._saved is None
        self._saved = True
        os.open = self._os_open
        os.close = self._os_close
        os.stat = self._os_stat
        os.lstat = self._os_lstat
        os.fstat = self._os_fstat
        os.scandir = self._os_scandir
        os.listdir = self._os_listdir
        os.unlink = self._mk_write1('unlink', 'os.unlink')
        os.remove = self._mk_write1('unlink', 'os.remove')
        os.mkdir = self._mk_write1('mkdir', 'os.mkdir')
        os.rmdir = self._mk_write1('rmdir', 'os.rmdir')
        os.utime = self._mk_write1('utime', 'os.utime')
        os.chmod = self._mk_write1('chmod', 'os.chmod')
        os.truncate = self._mk_write1('truncate', 'os.truncate')
        os.rename = self._os_rename
        os.replace = self._os_rename
        os.symlink = self._os_symlink
        builtins.open = self._open
        io.open = self._open
        _fcntl.fcntl = self._fcntl
        if self.patch_time:
            import time as _time
            self._real_time = _time.time
            _time.time = lambda: self.clock.now_ns / 1e9
        if self.pool == 'keyed':
            import gemato.recursiveloader as _rl
            self._real_pool = _rl.MultiprocessingPoolWrapper
            _rl.MultiprocessingPoolWrapper = make_sim_pool(self)
        self.active = True
        return self

    def __exit__(self, *exc):
        self.active = False
        os.open = _o['os.open']
        os.close = _o['os.close']
        os.stat = _o['os.stat']
        os.lstat = _o['os.lstat']
        os.fstat = _o['os.fstat']
        os.scandir = _o['os.scandir']
        os.listdir = _o['os.listdir']
        os.unlink = _o['os.unlink']
        os.remove = _o['os.remove']
        os.mkdir = _o['os.mkdir']
        os.rmdir = _o['os.rmdir']
        os.utime = _o['os.utime']
        os.chmod = _o['os.chmod']
        os.truncate = _o['os.truncate']
        os.rename = _o['os.rename']
        os.replace = _o['os.replace']
        os.symlink = _o['os.symlink']
        builtins.open = _o['open']
        io.open = _o['io.open']
        _fcntl.fcntl = _o['fcntl']
        if self.patch_time:
            import time as _time
            _time.time = self._real_time
        if self.pool == 'keyed':
            import gemato.recursiveloader as _rl
            _rl.MultiprocessingPoolWrapper = self._real_pool
        self._saved = None
        # descriptors leaked by the code under test (generators not closed...)
        for fd in list(self._fds):
            self.stats['leaked_fds'] = self.stats.get('leaked_fds', 0) + 1
            try:
                _o['os.close'](fd)       # (so that a leaking code under test does not exhaust the worker process)
            except OSError:
                pass
        self._fds.clear()
        return False

    def digest(self):
        m = hashlib.sha256()
        for e in self.events:
            m.update(repr(e).encode('utf8', 'backslashreplace'))
        return m.hexdigest()
