"""Generator of trees + Manifest layouts that are consistent by construction,
and of storage mutations.  Used by C01, C02, C06, C07, C13, C18 and (without
Manifests) by the update-side properties."""
import os

from . import grammar as G

PLAIN = ['a', 'b', 'c', 'sub', 'dir1', 'pkg', 'x1', 'data', 'lib', 'src']
HOSTILE = ['with space', 'tab\there', 'back\\slash', 'ünï-cødé', '-dash',
           'foo', 'foobar', 'foo.d', 'foo bar', 'new\nline', ' em',
           'Manifestx', 'aManifest', 'q\x7fdel', '\U0001f600smile', 'files']
HIDDEN = ['.hid', '.git', '.x']
FNAMES = ['f', 'g', 'h.txt', 'data.bin', 'README', 'k.ebuild', 'metadata.xml',
          'foo', 'foobar', 'foo.d', 'z z', 'tab\tf', 'b\\s', 'é', '-n',
          'Manifest.old', 'manifest', 'x.gz']
HASHSETS = [['MD5'], ['SHA1'], ['SHA256', 'SHA512'], ['BLAKE2B', 'SHA512'],
            ['MD5', 'SHA1', 'SHA256'], ['SHA3_256'], ['SHA3_512', 'BLAKE2S'],
            ['RMD160'], [], ['BLAKE2B']]
FILE_TAGS = ['DATA', 'DATA', 'DATA', 'MISC', 'EBUILD']
COMPS = [None, None, 'gz', 'bz2', 'lzma', 'xz']


def pick_hashes(rng):
    hs = [h for h in rng.choice(HASHSETS) if h in G.SUPPORTED_HASHES]
    return hs


def rand_content(rng, maxlen=40):
    n = rng.choice([0, 1, 2, 5, 9, 17, maxlen])
    alphabet = 'abcdefghij \n0123456789'
    return ''.join(rng.choice(alphabet) for _ in range(n))


def psw(path, prefix):
    return prefix == '' or path == prefix or path.startswith(prefix + '/')


def gen_tree(rng, cfg=None):
    """Returns dict(tree=[...], manifests=[...], info={...}).

    info: dirs, files (walk-view paths that need entries), manifest paths,
    ignored paths, top name."""
    cfg = cfg or {}
    hostile = cfg.get('hostile', rng.random() < 0.5)
    max_files = cfg.get('max_files', 10)
    names = PLAIN + (HOSTILE if hostile else [])
    # --- directories
    ndirs = rng.randrange(0, cfg.get('max_dirs', 6) + 1)
    dirs = ['']
    for _ in range(ndirs):
        parent = rng.choice(dirs)
        if parent.count('/') >= cfg.get('max_depth', 4) - 1 and parent:
            parent = ''
        n = rng.choice(names)
        if rng.random() < 0.08:
            n = rng.choice(HIDDEN)
        d = n if not parent else parent + '/' + n
        if d not in dirs:
            dirs.append(d)
    tree = [{'p': d, 'k': 'dir'} for d in dirs if d]
    taken = set(dirs)
    # --- files
    files = []
    nfiles = rng.randrange(0, max_files + 1)
    fnames = FNAMES if hostile else FNAMES[:8]
    for _ in range(nfiles):
        d = rng.choice(dirs)
        n = rng.choice(fnames)
        if rng.random() < 0.07:
            n = rng.choice(['.hidden', '.keep'])
        p = n if not d else d + '/' + n
        if p in taken:
            continue
        taken.add(p)
        files.append(p)
        tree.append({'p': p, 'k': 'file', 'c': rand_content(rng),
                     'mt': rng.choice([-3_000_000_000, -1_000_000_000, 0, 500_000_000, 2_000_000_000])})
    # --- look-alike siblings: names that extend a directory's name as a STRING
    # but are different path components (foo / foo-extra / foo.conf / foobar/x)
    lookalikes = []
    if cfg.get('lookalikes', True) and rng.random() < 0.35 and len(dirs) > 1:
        d = rng.choice(dirs[1:])
        for suffix in rng.sample(['-extra', '.conf', 'bar', '2', ' x'], rng.choice([1, 2])):
            if rng.random() < 0.6:
                p = d + suffix
                if p not in taken:
                    taken.add(p)
                    files.append(p)
                    tree.append({'p': p, 'k': 'file', 'c': rand_content(rng), 'mt': 0})
                    lookalikes.append(p)
            else:
                nd = d + suffix
                p = nd + '/inner'
                if nd not in taken and p not in taken:
                    taken.add(nd)
                    taken.add(p)
                    dirs.append(nd)
                    tree.append({'p': nd, 'k': 'dir'})
                    files.append(p)
                    tree.append({'p': p, 'k': 'file', 'c': rand_content(rng), 'mt': 0})
                    lookalikes.append(nd)
    # --- symlinks (never loops: targets are link-free subtrees, link outside target)
    links = []
    if cfg.get('symlinks', True):
        for _ in range(rng.choice([0, 0, 1, 2])):
            d = rng.choice(dirs)
            n = rng.choice(['lnk', 'l2', 'link to'])
            p = n if not d else d + '/' + n
            if p in taken:
                continue
            kind = rng.choice(['file', 'dir', 'dangling'])
            if kind == 'file' and files:
                t = rng.choice(files)
            elif kind == 'dir' and len(dirs) > 1:
                t = rng.choice(dirs[1:])
                # no loops: link must not live inside target, target subtree link-free
                if psw(p, t) or any(psw(l['p'], t) for l in links):
                    continue
                if any(l['k2'] == 'dir' and psw(d, l['p']) for l in links):
                    continue
            else:
                kind = 'dangling'
                t = 'nowhere' if rng.random() < 0.5 else (d + '/gone' if d else 'gone')
            rel_t = os.path.relpath(t, d or '.') if kind != 'dangling' or '/' in t else t
            taken.add(p)
            links.append({'p': p, 'k': 'symlink', 't': rel_t, 'k2': kind, 'abs_t': t})
    for l in links:
        tree.append({'p': l['p'], 'k': 'symlink', 't': l['t']})
    # --- walk view: paths the verifier will see as non-directory names
    dir_set = set(dirs)
    link_dirs = {l['p']: l['abs_t'] for l in links if l['k2'] == 'dir'}

    def hidden(p):
        return any(c.startswith('.') for c in p.split('/'))

    view_files = []     # (view path, real file path)
    view_dirs = ['']

    def expand(view_d, real_d):
        for f in files:
            if os.path.dirname(f) == real_d:
                view_files.append((pjoin(view_d, os.path.basename(f)), f))
        for l in links:
            if os.path.dirname(l['p']) == real_d:
                vp = pjoin(view_d, os.path.basename(l['p']))
                if l['k2'] == 'file':
                    view_files.append((vp, l['abs_t']))
                elif l['k2'] == 'dir':
                    view_dirs.append(vp)
                    expand(vp, l['abs_t'])
        for d in dirs:
            if d and os.path.dirname(d) == real_d:
                vp = pjoin(view_d, os.path.basename(d))
                view_dirs.append(vp)
                expand(vp, d)

    def pjoin(a, b):
        return b if not a else a + '/' + b

    expand('', '')
    # --- Manifest layout
    top = cfg.get('top', 'Manifest')
    mdirs = ['']
    cand = [d for d in dirs if d and not hidden(d)
            and not any(psw(d, t) or psw(t, d) for t in link_dirs.values())]
    rng.shuffle(cand)
    for d in cand[:rng.choice([0, 0, 1, 1, 2, 3])]:
        mdirs.append(d)
    manifests = {}     # path -> dict(p, entries)
    mpaths = {}        # dir -> [manifest paths]
    chain_parent = {}  # third Manifest of a directory -> the second one, which references it
    for d in mdirs:
        if d == '':
            mp = top
        else:
            c = rng.choice(COMPS)
            mp = d + '/Manifest' + ('.' + c if c else '')
        manifests[mp] = {'p': mp, 'entries': []}
        mpaths[d] = [mp]
        if rng.random() < cfg.get('p_multi', 0.2):
            c = rng.choice(COMPS)
            extra = pjoin(d, rng.choice(['Manifest.files', 'Manifest.b', 'Manifest-extra']) + ('.' + c if c else ''))
            if extra not in taken:
                manifests[extra] = {'p': extra, 'entries': []}
                mpaths[d].append(extra)
                if rng.random() < cfg.get('p_chain3', 0.3):
                    # a chain of three Manifests in one directory: primary -> extra -> extra2
                    c2 = rng.choice(COMPS)
                    base2 = rng.choice([b for b in ('Manifest.files', 'Manifest.b', 'Manifest-extra', 'Manifest.extra')
                                        if not os.path.basename(extra).startswith(b)])
                    extra2 = pjoin(d, base2 + ('.' + c2 if c2 else ''))
                    if extra2 not in taken and extra2 not in manifests:
                        manifests[extra2] = {'p': extra2, 'entries': []}
                        mpaths[d].append(extra2)
                        chain_parent[extra2] = extra
    for mp in manifests:
        taken.add(mp)
    # IGNOREs
    ignored = []
    if cfg.get('ignores', True) and rng.random() < 0.45:
        pool = [v for v in view_dirs if v and not hidden(v)] + [vf for vf, _ in view_files if not hidden(vf)]
        pool = [p for p in pool if not any(psw(mp, p) for mp in manifests)]
        rng.shuffle(pool)
        for p in pool[:rng.choice([1, 1, 2])]:
            if not any(psw(p, i) or psw(i, p) for i in ignored):
                ignored.append(p)
        if rng.random() < 0.3:
            extra_ign = rng.choice(['foo', 'distfiles', 'no-such', 'a/none'])
            if not any(psw(mp, extra_ign) for mp in manifests):
                ignored.append(extra_ign)

    def governing(p, rng):
        """Manifest files whose directory covers path p."""
        cands = [mp for d in mdirs for mp in mpaths[d] if psw(os.path.dirname(p) if True else p, d)]
        return cands

    def is_ignored(p):
        return any(psw(p, i) for i in ignored)

    for i in ignored:
        g = [mp for d in mdirs for mp in mpaths[d] if psw(i, d) and (d != i)]
        # an IGNORE must sit in a Manifest that is not itself under the ignored path
        g = [mp for mp in g if not psw(os.path.dirname(mp), i) or os.path.dirname(mp) == '']
        mp = rng.choice(g) if g else top
        md = os.path.dirname(mp)
        manifests[mp]['entries'].append({'tag': 'IGNORE', 'path': os.path.relpath(i, md or '.')})
    # file entries
    need = []
    for vp, real in view_files:
        if hidden(vp) and not is_ignored(vp) and vp not in manifests and vp != top and \
                rng.random() < cfg.get('p_listed_hidden', 0.0):
            # a Manifest written by another tool lists a dotfile or a file inside a dot-directory: the walk never
            # visits it, the entry is still verified
            need.append(vp)
            continue
        if hidden(vp) or is_ignored(vp) or vp in manifests:
            continue
        if vp == top:
            continue
        need.append(vp)
    dup_info = []
    for vp in need:
        g = [mp for mp in governing(vp, rng) if not is_ignored(os.path.dirname(mp)) or True]
        # prefer the deepest Manifest, sometimes an ancestor one
        g.sort(key=lambda mp: -len(os.path.dirname(mp)))
        mp = g[0] if rng.random() < 0.8 else rng.choice(g)
        md = os.path.dirname(mp)
        rel = os.path.relpath(vp, md or '.')
        tag = rng.choice(FILE_TAGS)
        if rel.startswith('files/') and rng.random() < 0.5:
            tag = 'AUX'
        e = {'tag': tag, 'path': rel, 'hashes': pick_hashes(rng)}
        manifests[mp]['entries'].append(e)
        # duplicates
        r = rng.random()
        if r < cfg.get('p_dup', 0.12):
            mp2 = rng.choice(g)
            md2 = os.path.dirname(mp2)
            rel2 = os.path.relpath(vp, md2 or '.')
            tag2 = rng.choice(['DATA', 'EBUILD', tag if tag != 'MISC' else 'MISC'])
            if tag == 'MISC':
                tag2 = 'MISC'
            if tag2 == 'MISC' and tag != 'MISC':
                tag2 = 'DATA'
            e2 = {'tag': tag2, 'path': rel2, 'hashes': pick_hashes(rng)}
            kind = 'compatible'
            if rng.random() < cfg.get('p_wrong_dup', 0.0):
                # a duplicate that does not conflict with the first entry (disjoint hash names) but is WRONG
                dis = [h for h in G.SUPPORTED_HASHES if h not in e['hashes']]
                rng.shuffle(dis)
                e2['hashes'] = dis[:rng.choice([1, 2])]
                e2['override'] = {e2['hashes'][0]: '0' * 8}
                kind = 'wrong-disjoint'
            elif cfg.get('p_conflict', 0.3) > 0 and e['hashes'] and rng.random() < 0.15:
                # overlapping hash sets: one name shared - with the SAME wrong value in both entries - and one name each
                # that only that entry has (right values): the shared one decides
                sh = rng.choice(e['hashes'])
                rest = [h for h in G.SUPPORTED_HASHES if h not in e['hashes']]
                e2['hashes'] = [sh] + (rng.sample(rest, 1) if rest else [])
                e['override'] = dict(e.get('override', {}), **{sh: '0' * 8})
                e2['override'] = {sh: '0' * 8}
                kind = 'overlap-wrong-shared'
            elif rng.random() < cfg.get('p_conflict', 0.3):
                if rng.random() < 0.5 or not e2['hashes']:
                    e2['dsize'] = 1
                    kind = 'conflict-size'
                else:
                    shared = [h for h in e2['hashes'] if h in e['hashes']]
                    if shared:
                        e2['override'] = {shared[0]: '0' * 8}
                        kind = 'conflict-hash'
            manifests[mp2]['entries'].append(e2)
            if kind == 'compatible' and cfg.get('p_conflict', 0.3) > 0 and rng.random() < 0.2:
                # three entries, compatibility is not transitive: the first and the third give different values for one
                # hash name, the second lists only other names (so each neighbouring pair agrees)
                h1 = rng.choice(G.SUPPORTED_HASHES)
                dis = [h for h in G.SUPPORTED_HASHES if h != h1]
                e['hashes'] = [h1]
                e.pop('override', None)
                e2['hashes'] = rng.sample(dis, rng.choice([1, 2]))
                e2.pop('override', None)
                mp3 = rng.choice([mp2, mp2, rng.choice(g)])
                e3 = {'tag': tag2, 'path': os.path.relpath(vp, os.path.dirname(mp3) or '.'), 'hashes': [h1]}
                (e if rng.random() < 0.5 else e3)['override'] = {h1: '0' * 8}
                manifests[mp3]['entries'].append(e3)
                kind = 'triple-nontransitive'
            dup_info.append((vp, kind))
    # MANIFEST entries for sub-Manifests: in a Manifest of a proper ancestor
    # directory, or (Gentoo layout) in another Manifest of the same directory
    order = sorted(manifests, key=lambda k: (-k.count('/'), k))
    for mp in order:
        if mp == top:
            continue
        md = os.path.dirname(mp)
        cands = [o for d in mdirs for o in mpaths[d]
                 if o != mp and psw(md, d) and (d != md or o == mpaths[d][0])]
        # avoid reference cycles: only reference from the primary Manifest of
        # the same dir or from ancestors
        cands = [o for o in cands if not (os.path.dirname(o) == md and mp == mpaths[md][0])]
        if not cands:
            cands = [top]
        cands.sort(key=lambda o: -len(os.path.dirname(o)))
        parent = cands[0] if rng.random() < 0.75 else rng.choice(cands)
        if mp in chain_parent:
            parent = chain_parent[mp]
        pd = os.path.dirname(parent)
        manifests[parent]['entries'].append(
            {'tag': 'MANIFEST', 'path': os.path.relpath(mp, pd or '.'), 'hashes': pick_hashes(rng) or ['SHA256']})
        manifests[mp]['parent'] = parent
        if rng.random() < cfg.get('p_second_manifest_ref', 0.0):
            # a second entry for the same sub-Manifest file, in the same or another covering Manifest:
            # MANIFEST again (both references must hold) or DATA/EBUILD (a plain file entry for it)
            others = [o for o in cands if o != mp]
            par2 = rng.choice(others) if others else parent
            pd2 = os.path.dirname(par2)
            first_h = manifests[parent]['entries'][-1]['hashes']
            dis = [h for h in G.SUPPORTED_HASHES if h not in first_h]
            rng.shuffle(dis)
            e2 = {'tag': rng.choice(cfg.get('second_ref_tags', ['MANIFEST', 'MANIFEST', 'DATA', 'EBUILD'])), 'path': os.path.relpath(mp, pd2 or '.'),
                  'hashes': dis[:rng.choice([1, 2])]}
            if rng.random() < cfg.get('p_second_manifest_ref_wrong', 0.0):
                e2['override'] = {e2['hashes'][0]: '0' * 8}
            if rng.random() < 0.5:
                manifests[par2]['entries'].insert(0, e2)
            else:
                manifests[par2]['entries'].append(e2)
    # noise
    for mp in manifests:
        if rng.random() < cfg.get('p_style', 0.0):
            manifests[mp]['style'] = rng.choice(['nofinalnl', 'nofinalnl', 'crlf', 'cr', 'tabs', 'blank', 'trailing-space', 'double-space'])
        ents = manifests[mp]['entries']
        if rng.random() < 0.15:
            ents.append({'tag': 'DIST', 'path': 'dist-%d.tar' % rng.randrange(9), 'c': 'd', 'hashes': ['SHA512']})
        if rng.random() < cfg.get('p_dist_same_name', 0.12):
            # a distfile that shares its name with a file listed in the same Manifest
            # (e.g. once copied into the package directory)
            same = [e['path'] for e in ents if e.get('tag') in ('DATA', 'MISC', 'EBUILD') and '/' not in e.get('path', '/')]
            if same:
                ents.append({'tag': 'DIST', 'path': rng.choice(same), 'c': 'distfile of the same name', 'hashes': ['SHA512']})
        if rng.random() < cfg.get('p_timestamp', 0.1):
            ents.append({'tag': 'TIMESTAMP', 'ts': '2020-09-13T12:00:00Z'})
        if rng.random() < 0.5:
            rng.shuffle(ents)
    # write order: deepest first; within a dir, children (non-primary) before
    # the Manifest that references them.  Use dependency order.
    out = []
    done = set()

    def emit(mp):
        if mp in done:
            return
        done.add(mp)
        for o in order:
            if manifests[o].get('parent') == mp:
                emit(o)
        spec = {'p': mp, 'entries': manifests[mp]['entries']}
        if manifests[mp].get('style'):
            spec['style'] = manifests[mp]['style']
        out.append(spec)

    emit(top)
    for mp in order:
        emit(mp)
    info = {'dirs': dirs, 'files': files, 'view_files': [v for v, _ in view_files],
            'view_dirs': view_dirs, 'need': need, 'manifests': [m['p'] for m in out],
            'ignored': ignored, 'top': top, 'dups': dup_info, 'lookalikes': lookalikes,
            'links': [(l['p'], l['k2']) for l in links]}
    return {'tree': tree, 'manifests': out, 'info': info}


def gen_mutations(rng, info, n, allow_manifest=True, allow_retype=True):
    """n storage mutations against a built tree (by walk-view path)."""
    muts = []
    files = list(info['need']) or list(info['view_files'])
    targets = files + ([m for m in info['manifests']] if allow_manifest else [])
    dirs = [d for d in info['view_dirs']]
    for _ in range(n):
        r = rng.random()
        if r < 0.55 and targets:
            p = rng.choice(targets)
            k = rng.choice(['flip', 'flip', 'rewrite', 'truncate', 'append', 'delete'] +
                           (['retype'] if allow_retype else []))
            m = {'m': k, 'p': p}
            if k == 'flip':
                m['pos'] = rng.randrange(0, 64)
                m['bit'] = rng.choice([1, 2, 32, 128])
                m['keep_mtime'] = rng.random() < 0.5
            elif k == 'rewrite':
                m['c'] = rand_content(rng)
                m['keep_mtime'] = rng.random() < 0.3
            elif k == 'truncate':
                m['n'] = rng.randrange(0, 40)
            elif k == 'append':
                m['c'] = rng.choice(['x', '\n', 'more data'])
            elif k == 'retype':
                m['k'] = rng.choice(['dir', 'symlink', 'symlink', 'fifo', 'socket'])
                if (p == info['top'] and m['k'] in ('fifo', 'socket')) or \
                        (os.path.basename(p) == 'Manifest' and m['k'] == 'fifo'):
                    # opening a FIFO top-level Manifest blocks for ever in any
                    # reader; outside every property's statement
                    m['k'] = 'dir'
                if m['k'] == 'symlink':
                    m['t'] = rng.choice(['nowhere', 'no/where', os.path.basename(rng.choice(files)) if files else 'x'])
            muts.append(m)
        elif r < 0.85:
            d = rng.choice(dirs)
            n_ = rng.choice(['stray', 'new file', 'Manifest', 'Manifest.gz', 'zzz', '.hidden-new',
                             'foo', 'foobar', 'Manifest.bak', 'caf\udce9'])     # the last: a name that is not valid UTF-8
            p = n_ if not d else d + '/' + n_
            k = rng.choice(['file', 'file', 'file', 'dir+file', 'fifo', 'symlink'])
            if k == 'fifo' and n_ == 'Manifest':
                k = 'file'   # a FIFO named Manifest blocks upward discovery for ever
            if k == 'dir+file':
                muts.append({'m': 'add', 'p': p + '.d/inner', 'k': 'file', 'c': 'i', 'parents': True})
            elif k == 'symlink':
                t_ = rng.choice(['nowhere', os.path.basename(files[0]) if files else 'x', None])
                if t_ is None:
                    # a stray alias of another directory of the tree (its files appear a second time under new names)
                    t_ = os.path.relpath(rng.choice(dirs) or '.', d or '.')
                muts.append({'m': 'add', 'p': p, 'k': 'symlink', 't': t_})
            else:
                muts.append({'m': 'add', 'p': p, 'k': k, 'c': rand_content(rng)})
        else:
            ds = [d for d in dirs if d]
            if ds:
                d = rng.choice(ds)
                muts.append({'m': rng.choice(['delete', 'retype']), 'p': d, 'k': 'file', 'c': 'was a dir'})
    return muts
