"""World: one scratch directory holding the tree under test, built from the
JSON scenario with plain (un-patched) filesystem calls."""
import base64
import hashlib
import os
import shutil
import socket
import stat
import tempfile

from . import grammar as G
from .seam import orig as _o

EPOCH_NS = 1_600_000_000_000_000_000   # simulated epoch (2020-09-13T12:26:40Z)

_scratch_base = None


def scratch_base():
    global _scratch_base
    if _scratch_base is None:
        b = os.environ.get('VERIF_SCRATCH')
        if not b:
            b = '/dev/shm' if os.path.isdir('/dev/shm') and os.access('/dev/shm', os.W_OK) else tempfile.gettempdir()
        _scratch_base = b
    return _scratch_base


def content_bytes(spec):
    if 'c' in spec:
        return spec['c'].encode('utf8', 'surrogateescape')
    if 'b64' in spec:
        return base64.b64decode(spec['b64'])
    if 'rep' in spec:
        s, n = spec['rep']
        b = s.encode('utf8')
        if not b:
            return b''
        return (b * (n // len(b) + 1))[:n]
    if 'prng' in spec:
        seed, n = spec['prng']
        out = bytearray()
        i = 0
        while len(out) < n:
            out += hashlib.sha256(('%s/%d' % (seed, i)).encode()).digest()
            i += 1
        return bytes(out[:n])
    return b''


class World:
    def __init__(self, scenario=None, subdir='tree'):
        self.sc = scenario or {}
        self.base = tempfile.mkdtemp(prefix='vsim.', dir=scratch_base())
        self.base = os.path.realpath(self.base)
        self.root = os.path.join(self.base, subdir)
        _o['os.mkdir'](self.root)
        self.epoch_ns = self.sc.get('epoch_ns', EPOCH_NS)

    # -- context -----------------------------------------------------------
    def __enter__(self):
        return self

    def __exit__(self, *a):
        self.cleanup()

    def cleanup(self):
        shutil.rmtree(self.base, ignore_errors=True)

    def path(self, rel=''):
        if rel in ('', '.'):
            return self.root
        return os.path.join(self.root, rel)

    # -- building ----------------------------------------------------------
    def _mt(self, spec, default=0):
        mt = spec.get('mt', default)
        return self.epoch_ns + int(mt)

    def _mkparents(self, p):
        d = os.path.dirname(p)
        if d and not os.path.isdir(d):
            os.makedirs(d, exist_ok=True)

    def put(self, spec, root=None):
        """Create one object.  Returns False if it could not be created (e.g.
        a parent is a file after shrinking)."""
        root = root or self.root
        p = os.path.join(root, spec['p'])
        k = spec.get('k', 'file')
        try:
            self._mkparents(p)
            if k == 'dir' and os.path.isdir(p) and not os.path.islink(p):
                return True
            if os.path.lexists(p):
                self.remove(spec['p'], root=root)
            if k == 'dir':
                os.makedirs(p, exist_ok=True)
            elif k == 'file':
                with _o['open'](p, 'wb') as f:
                    f.write(content_bytes(spec))
                t = self._mt(spec)
                _o['os.utime'](p, ns=(t, t))
            elif k == 'symlink':
                # a link whose target resolves outside the world (e.g. '..' steps taken from behind another link) would
                # expose the scratch directory with the worlds of other runs: never created
                tgt = os.path.realpath(os.path.join(os.path.dirname(p), spec['t']))
                if not (tgt == self.base or tgt.startswith(self.base + os.sep)):
                    return False
                _o['os.symlink'](spec['t'], p)
            elif k == 'fifo':
                os.mkfifo(p)
            elif k == 'socket':
                s = socket.socket(socket.AF_UNIX)
                try:
                    cwd = os.getcwd()
                    os.chdir(os.path.dirname(p))
                    try:
                        s.bind(os.path.basename(p))
                    finally:
                        os.chdir(cwd)
                finally:
                    s.close()
            else:
                raise ValueError(k)
            return True
        except (OSError, ValueError):
            return False

    def remove(self, rel, root=None):
        p = os.path.join(root or self.root, rel)
        try:
            st = _o['os.lstat'](p)
        except OSError:
            return False
        if stat.S_ISDIR(st.st_mode):
            shutil.rmtree(p, ignore_errors=True)
        else:
            _o['os.unlink'](p)
        return True

    def read(self, rel, root=None):
        with _o['open'](os.path.join(root or self.root, rel), 'rb') as f:
            return f.read()

    def resolve_entry(self, mdir, e, root=None):
        """Turn a symbolic entry into a concrete one (size+sums), computing
        from the current tree when the entry is 'auto'.  None => skip."""
        if 'raw' in e:
            return {'raw': e['raw']}
        t = e['tag']
        if t in ('IGNORE',):
            return {'tag': t, 'path': e['path']}
        if t == 'TIMESTAMP':
            return {'tag': t, 'ts': e['ts']}
        if 'size' in e:
            return {'tag': t, 'path': e['path'], 'size': e['size'],
                    'sums': dict(e.get('sums', {}))}
        # auto
        if t == 'DIST':
            data = content_bytes(e)
        else:
            p = os.path.join(root or self.root, mdir, e['path'])
            try:
                st = _o['os.stat'](p)
                if not stat.S_ISREG(st.st_mode):
                    raise OSError('not regular')
                with _o['open'](p, 'rb') as f:
                    data = f.read()
            except OSError:
                if e.get('keep'):
                    data = content_bytes(e)
                else:
                    return None
        sums = G.digests(data, e.get('hashes', []))
        for h, v in e.get('override', {}).items():
            sums[h] = v
        size = len(data) + e.get('dsize', 0)
        return {'tag': t, 'path': e['path'], 'size': max(size, 0), 'sums': sums}

    def write_manifest(self, m, root=None):
        root = root or self.root
        mdir = os.path.dirname(m['p'])
        ents = []
        for e in m.get('entries', []):
            try:
                r = self.resolve_entry(mdir, e, root=root)
            except (KeyError, AssertionError, ValueError):
                r = None
            if r is not None:
                ents.append(r)
        try:
            text = G.dump(ents)
        except (AssertionError, KeyError):
            text = ''
        if 'text' in m:
            text = m['text']
        st = m.get('style')
        if st and text:
            # legal spellings of the same entries (a hand-edited or foreign-tool Manifest)
            if st == 'nofinalnl':
                text = text.rstrip('\n')
            elif st == 'crlf':
                text = text.replace('\n', '\r\n')
            elif st == 'cr':
                text = text.replace('\n', '\r')
            elif st == 'tabs':
                text = '\n'.join(l.replace(' ', '\t', 1) for l in text.split('\n'))
            elif st == 'blank':
                text = '\n' + text.replace('\n', '\n\n')
            elif st == 'trailing-space':
                text = text.replace('\n', '  \n')
            elif st == 'double-space':
                text = '\n'.join(l.replace(' ', '  ') for l in text.split('\n'))
        data = G.compress(text.encode('utf8', 'surrogateescape'), G.comp_of(m['p']))
        p = os.path.join(root, m['p'])
        try:
            self._mkparents(p)
            if os.path.isdir(p) and not os.path.islink(p):
                return False
            with _o['open'](p, 'wb') as f:
                f.write(data)
            t = self._mt(m)
            _o['os.utime'](p, ns=(t, t))
            return True
        except OSError:
            return False

    def build(self, root=None):
        for spec in self.sc.get('tree', []):
            self.put(spec, root=root)
        for m in self.sc.get('manifests', []):
            self.write_manifest(m, root=root)

    def other_tree(self):
        """A small consistent Manifest tree next to the world (not inside it), for command lines naming
        several trees."""
        t0 = os.path.join(self.base, '.tree0')
        if not os.path.isdir(t0):
            _o['os.mkdir'](t0)
            _o['os.mkdir'](os.path.join(t0, 'sub'))
            with _o['open'](os.path.join(t0, 'sub', 'f'), 'w') as f:
                f.write('clean')
            with _o['open'](os.path.join(t0, 'Manifest'), 'w') as f:
                f.write(G.dump([{'tag': 'DATA', 'path': 'sub/f', 'size': 5, 'sums': G.digests(b'clean', ['SHA256'])}]))
        return t0

    # -- mutations ------------------------------------------------------------
    def mutate(self, op, root=None):
        """Apply one storage mutation; returns True if it changed something."""
        root = root or self.root
        k = op['m']
        p = os.path.join(root, op['p'])
        try:
            if k == 'flip':
                st = _o['os.stat'](p)
                if not stat.S_ISREG(st.st_mode) or st.st_size == 0:
                    return False
                with _o['open'](p, 'rb') as f:
                    d = bytearray(f.read())
                i = op.get('pos', 0) % len(d)
                d[i] ^= (op.get('bit', 1) or 1)
                with _o['open'](p, 'wb') as f:
                    f.write(d)
                self._set_mtime(p, op, st)
                return True
            if k == 'rewrite':
                st = None
                try:
                    st = _o['os.stat'](p)
                    if not stat.S_ISREG(st.st_mode):
                        return False
                except OSError:
                    return False
                with _o['open'](p, 'wb') as f:
                    f.write(content_bytes(op))
                self._set_mtime(p, op, st)
                return True
            if k == 'truncate':
                st = _o['os.stat'](p)
                if not stat.S_ISREG(st.st_mode) or st.st_size == 0:
                    return False
                n = op.get('n', 0) % st.st_size
                _o['os.truncate'](p, n)
                self._set_mtime(p, op, st)
                return True
            if k == 'append':
                st = _o['os.stat'](p)
                if not stat.S_ISREG(st.st_mode):
                    return False
                data = content_bytes(op) or b'x'
                with _o['open'](p, 'ab') as f:
                    f.write(data)
                self._set_mtime(p, op, st)
                return True
            if k == 'delete':
                return self.remove(op['p'], root=root)
            if k == 'add':
                if os.path.lexists(p):
                    return False
                if not os.path.isdir(os.path.dirname(p)) and not op.get('parents'):
                    return False
                return self.put(dict(op, k=op.get('k', 'file')), root=root)
            if k == 'retype':
                if not os.path.lexists(p):
                    return False
                self.remove(op['p'], root=root)
                return self.put(dict(op, k=op['k']), root=root)
            if k == 'mtime':
                st = _o['os.stat'](p)
                self._set_mtime(p, op, None)
                return True
            if k == 'recompress':
                # same logical Manifest, other format, *same name*
                data = self.read(op['p'], root=root)
                text = G.decompress(data, G.comp_of(op['p']))
                newp = os.path.join(root, op['to'])
                st = _o['os.stat'](p)
                _o['os.unlink'](p)
                with _o['open'](newp, 'wb') as f:
                    f.write(G.compress(text, G.comp_of(op['to'])))
                self._set_mtime(newp, op, st)
                return True
            if k == 'manifest':
                return self.write_manifest(op, root=root)
        except (OSError, ValueError, EOFError, KeyError):
            return False
        except Exception:
            return False
        raise ValueError('unknown mutation ' + k)

    def _set_mtime(self, p, op, st_before):
        if 'mt' in op:
            t = self.epoch_ns + int(op['mt'])
        elif st_before is not None and op.get('keep_mtime'):
            t = st_before.st_mtime_ns
        elif 'now_ns' in op:
            t = op['now_ns']
        else:
            return
        _o['os.utime'](p, ns=(t, t))

    # -- observation -----------------------------------------------------------
    def snapshot(self, root=None, with_mtime=True, content=False):
        """path -> tuple describing the object, for byte-for-byte comparison."""
        root = root or self.root
        out = {}
        stack = ['']
        while stack:
            d = stack.pop()
            full = os.path.join(root, d) if d else root
            try:
                names = sorted(_o['os.listdir'](full))
            except OSError:
                continue
            for n in names:
                rel = os.path.join(d, n) if d else n
                p = os.path.join(root, rel)
                st = _o['os.lstat'](p)
                if stat.S_ISDIR(st.st_mode):
                    out[rel] = ('dir',)
                    stack.append(rel)
                elif stat.S_ISLNK(st.st_mode):
                    out[rel] = ('symlink', _o['os.readlink'](p))
                elif stat.S_ISREG(st.st_mode):
                    with _o['open'](p, 'rb') as f:
                        data = f.read()
                    v = data if content else hashlib.sha256(data).hexdigest()
                    if with_mtime:
                        out[rel] = ('file', v, len(data), st.st_mtime_ns)
                    else:
                        out[rel] = ('file', v, len(data))
                else:
                    out[rel] = ('special', stat.S_IFMT(st.st_mode))
        return out


def is_manifest_name(name):
    return name in G.MANIFEST_NAMES or (name.startswith('Manifest.') )


def blocking_manifest(root, names=('Manifest',)):
    """A file called Manifest (or the top-level name) that resolves to a FIFO
    blocks any reader for ever; such worlds are outside every property."""
    for d, dn, fn in os.walk(root):
        for n in fn:
            if n in names or n.startswith('Manifest'):
                try:
                    st = _o['os.stat'](os.path.join(d, n))
                except OSError:
                    continue
                if stat.S_ISFIFO(st.st_mode):
                    return True
    return False
