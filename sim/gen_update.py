"""Generators for update histories: prior tree + prior Manifest state + rounds
of (edits, update)."""
import os

from . import gen_tree as GT
from . import grammar as G

HASHSETS = [['SHA256'], ['MD5', 'SHA1'], ['BLAKE2B', 'SHA512'], ['SHA512'], ['MD5'],
            ['SHA1', 'SHA256', 'SHA512'], ['BLAKE2S', 'SHA3_256']]


def gen_edits(rng, info, n, benign=True):
    """file edits that keep the tree updatable (no special files, no dangling
    links) when benign."""
    eds = []
    files = list(info['files'])
    dirs = [d for d in info['dirs']]
    for _ in range(n):
        r = rng.random()
        if r < 0.45 and files:
            p = rng.choice(files)
            k = rng.choice(['rewrite', 'rewrite', 'append', 'truncate', 'flip', 'delete'])
            m = {'m': k, 'p': p}
            if k == 'rewrite':
                m['c'] = GT.rand_content(rng)
            elif k == 'append':
                m['c'] = rng.choice(['x', 'more\n'])
            elif k == 'truncate':
                m['n'] = rng.randrange(0, 20)
            elif k == 'flip':
                m['pos'] = rng.randrange(0, 40)
                m['bit'] = 1
            eds.append(m)
            if k == 'delete':
                files.remove(p)
        elif r < 0.85:
            d = rng.choice(dirs)
            n_ = rng.choice(['new', 'new file', 'added.txt', 'zz', 'k2.ebuild', 'foo', 'foobar'])
            p = n_ if not d else d + '/' + n_
            if rng.random() < 0.2:
                p = p + '.d/inner'
                eds.append({'m': 'add', 'p': p, 'k': 'file', 'c': GT.rand_content(rng), 'parents': True})
            else:
                eds.append({'m': 'add', 'p': p, 'k': 'file', 'c': GT.rand_content(rng)})
            files.append(p)
        elif not benign:
            d = rng.choice(dirs)
            p = ('odd' if not d else d + '/odd')
            eds.append({'m': 'add', 'p': p, 'k': rng.choice(['fifo', 'symlink', 'socket']), 't': 'nowhere'})
        else:
            ds = [d for d in dirs if d]
            if ds and rng.random() < 0.5:
                d = rng.choice(ds)
                eds.append({'m': 'delete', 'p': d})
                dirs = [x for x in dirs if not (x == d or x.startswith(d + '/'))]
                files = [x for x in files if not x.startswith(d + '/')]
    return eds


def gen_update_opts(rng, info, prior_kind, allow_sub=True, api=None):
    u = {'api': api or rng.choice(['lib', 'lib', 'cli'])}
    u['hashes'] = rng.choice(HASHSETS)
    r = rng.random()
    if r < 0.3:
        u['sort'] = True
    elif r < 0.4:
        u['sort'] = False
    if rng.random() < 0.15:
        u['force'] = True
    if rng.random() < 0.25:
        u['watermark'] = rng.choice([0, 1, 40, 100, 200, 400, 100000])
        if rng.random() < 0.5:
            u['format'] = rng.choice(['gz', 'bz2', 'lzma', 'xz'])
    has_dirlink = any(k == 'dir' for _, k in info.get('links', []))
    if rng.random() < 0.2 and not (has_dirlink and rng.random() < 0.9):
        u['profile'] = rng.choice(['default', 'ebuild', 'old-ebuild'])
    if prior_kind == 'absent':
        u['create'] = True
    elif allow_sub and rng.random() < 0.3:
        subs = [d for d in info['dirs'] if d and not any(c.startswith('.') for c in d.split('/'))]
        # prefer directories that have string-prefix look-alike siblings
        la = [d for d in subs if any(o != d and o.startswith(d) and not o.startswith(d + '/') for o in info['dirs'] + info['files'])]
        if la and rng.random() < 0.7:
            u['path'] = rng.choice(la)
        elif subs:
            u['path'] = rng.choice(subs)
    if prior_kind != 'absent' and 'path' not in u and rng.random() < 0.08:
        u['create'] = True       # `gemato create` / allow_create=True over a tree that already has its Manifests
    if u['api'] == 'cli':
        u.pop('sort', None)      # no CLI flag for it
        if 'path' in u and rng.random() < 0.35:
            # one invocation naming two directories that share the top-level Manifest
            others = [d for d in info['dirs'] if d and d != u['path'] and not any(c.startswith('.') for c in d.split('/'))
                      and not (d + '/').startswith(u['path'] + '/') and not (u['path'] + '/').startswith(d + '/')]
            if others:
                u['path2'] = rng.choice(others)
    elif rng.random() < 0.2 and prior_kind != 'absent':
        u['pre_verify'] = rng.choice(['', ''] + [d for d in info['dirs'] if d][:3])
        if info.get('files'):
            u['pre_lookup'] = rng.choice(info['files'])
    return u


def gen_history(rng, cfg=None):
    cfg = cfg or {}
    g = GT.gen_tree(rng, dict({'top': 'Manifest', 'p_conflict': 0.0, 'p_dup': 0.3, 'p_second_manifest_ref': 0.15, 'second_ref_tags': ['MANIFEST'], 'p_style': 0.1,
                               'p_multi': cfg.get('p_multi', 0.15)}, **cfg.get('tree', {})))
    info = g['info']
    prior = rng.choice(['absent', 'exact', 'stale', 'stale', 'stale', 'stale'])
    manifests = g['manifests']
    tree = g['tree']
    first_edits = []
    if prior == 'absent':
        manifests = []
    else:
        if prior == 'stale':
            first_edits = gen_edits(rng, info, rng.choice([1, 2, 3, 4]))
        # partially refreshed prior state: after the edits some Manifests are
        # rewritten with current values while others stay stale (e.g. a file listed
        # in parent and child where only one of the two entries is stale)
        if prior == 'stale' and manifests and rng.random() < 0.5:
            ms = list(manifests)
            rng.shuffle(ms)
            for m in ms[:rng.choice([1, 1, 2])]:
                first_edits = first_edits + [{'m': 'manifest', 'p': m['p'], 'entries': m['entries']}]
        # unregister a sub-Manifest (valid, no longer referenced)
        if rng.random() < 0.2:
            for m in manifests:
                ms = [e for e in m['entries'] if e.get('tag') == 'MANIFEST']
                if ms:
                    victim = rng.choice(ms)
                    m['entries'] = [e for e in m['entries'] if e is not victim]
                    break
        # an invalid file with a Manifest name in some directory
        if rng.random() < 0.12:
            d = rng.choice(info['dirs'])
            # a junk file with a compressed Manifest name in a sub-directory can collide with the file
            # a later watermark save creates for that directory's Manifest (two physical files for one
            # logical Manifest: statement silent); sub-directories get the plain name only
            p = 'Manifest' if d else rng.choice(['Manifest.gz', 'Manifest.gz', 'Manifest.bz2'])
            p = p if not d else d + '/' + p
            # two physical files for one logical Manifest are generated only
            # next to the top-level Manifest (rarely): elsewhere the statement
            # is silent about which of them is "the" Manifest
            clash = any(os.path.dirname(mp) == d for mp in info['manifests'])
            if p not in info['manifests'] and p != 'Manifest' and (not clash or (d == '' and rng.random() < 0.3)):
                # (also: text that starts out as a well-formed Manifest and turns into junk after some entries)
                here_ = [os.path.basename(t['p']) for t in tree if os.path.dirname(t['p']) == d and t.get('k', 'file') == 'file'
                         and 'c' in t and not any(ch in os.path.basename(t['p']) for ch in ' \t\\\n') and os.path.basename(t['p']).isascii()]
                if here_ and rng.random() < 0.5:
                    # ... a damaged copy / merge conflict: entries for a vanished file and for a file that is there (stale digest),
                    # then a conflict marker
                    tree = tree + [{'p': p, 'k': 'file', 'c': 'DATA zz-gone 0\nDATA %s 5 MD5 %s\n<<<<<<< HEAD\nDATA other 3\n' % (rng.choice(here_), '0' * 32)}]
                else:
                    tree = tree + [{'p': p, 'k': 'file', 'c': rng.choice(['junk that is no Manifest\n', 'DATA x\n', '',
                                                                          'DATA zz-listed-by-junk 1 MD5 00\nthis line is junk\n',
                                                                          'IGNORE zz-y\nDATA zz-z 3 SHA256 00\nDATA broken\n'])}]
        # stale explicit entries: wrong size / digest, vanished file
        if rng.random() < 0.3 and manifests:
            m = rng.choice(manifests)
            m['entries'] = m['entries'] + [{'tag': 'DATA', 'path': 'vanished-%d' % rng.randrange(9), 'size': 3,
                                            'sums': {'MD5': '0' * 32}}]
    # targeted prior state: an entry that is stale in its SIZE only (digests match the content), often for a file that
    # is empty (where st_size says nothing)
    if prior != 'absent' and manifests and rng.random() < cfg.get('p_size_only_stale', 0.1):
        cands = [(m, e) for m in manifests for e in m['entries']
                 if e.get('tag') in ('DATA', 'EBUILD', 'MISC', 'AUX') and 'size' not in e and 'raw' not in e]
        if cands:
            m, e = rng.choice(cands)
            e['dsize'] = rng.choice([1, 3, 100])
            if rng.random() < 0.6:
                fp = os.path.normpath(os.path.join(os.path.dirname(m['p']), e['path']))
                tree = [dict({'p': t['p'], 'k': 'file', 'c': ''}, **({'mt': t['mt']} if 'mt' in t else {}))
                        if t.get('p') == fp and t.get('k', 'file') == 'file' else t for t in tree]
    # targeted prior state: a directory that was covered first and declared IGNOREd later - the IGNORE line stands
    # (usually in front of) the entries for files below it, and those files have changed or gone since
    if prior != 'absent' and manifests and rng.random() < cfg.get('p_ignore_over_entries', 0.08):
        ms_ = list(manifests)
        rng.shuffle(ms_)
        for m in ms_:
            md_ = os.path.dirname(m['p'])
            below = [e for e in m['entries'] if e.get('tag') in ('DATA', 'EBUILD', 'MISC', 'AUX') and '/' in e.get('path', '')
                     and 'raw' not in e]
            tops_ = sorted(set(e['path'].split('/')[0] for e in below))
            tops_ = [d_ for d_ in tops_ if not d_.startswith('.') and
                     not any(e.get('tag') in ('MANIFEST', 'IGNORE') and (e.get('path', '') + '/').startswith(d_ + '/') for e in m['entries'])]
            if not tops_:
                continue
            d_ = rng.choice(tops_)
            ign = {'tag': 'IGNORE', 'path': d_}
            m['entries'] = ([ign] + m['entries']) if rng.random() < 0.7 else (m['entries'] + [ign])
            for e in rng.sample([e for e in below if e['path'].startswith(d_ + '/')], 1):
                full = os.path.normpath(os.path.join(md_, e['path']))
                first_edits = first_edits + [rng.choice([{'m': 'rewrite', 'p': full, 'c': 'changed since ' + GT.rand_content(rng)},
                                                         {'m': 'delete', 'p': full}])]
            break
    # targeted prior state: DATA entries whose path is written in a non-canonical form (`./a`, `sub/./b`) by some other tool,
    # for files that changed since: whichever way the update treats such a line, the result has to describe the tree
    if prior != 'absent' and manifests and rng.random() < cfg.get('p_noncanonical_path', 0.05):
        cands_ = [(m, e) for m in manifests for e in m['entries'] if e.get('tag') == 'DATA' and 'raw' not in e and 'size' not in e
                  and not e.get('path', '').startswith('.')]
        for m, e in rng.sample(cands_, min(len(cands_), rng.choice([1, 2]))):
            full_ = os.path.normpath(os.path.join(os.path.dirname(m['p']), e['path']))
            if '/' in e['path'] and rng.random() < 0.5:
                a_, b_ = e['path'].split('/', 1)
                e['path'] = a_ + '/./' + b_
            else:
                e['path'] = './' + e['path']
            if rng.random() < 0.7:
                first_edits = first_edits + [{'m': 'rewrite', 'p': full_, 'c': 'changed since ' + GT.rand_content(rng)}]
    # targeted prior state: ONE path carries a file entry and an IGNORE entry - the IGNORE in a Manifest above the one with
    # the file entry, or later in the same Manifest.  Whatever an update does with such a contradiction (refusing is fine), it
    # does not own the IGNORE line
    if prior != 'absent' and manifests and rng.random() < cfg.get('p_ignore_clash', 0.05):
        cands_ = [(m, e) for m in manifests for e in m['entries']
                  if e.get('tag') in ('DATA', 'EBUILD', 'MISC') and 'raw' not in e and not e.get('path', '').startswith('.')]
        if cands_:
            m, e = rng.choice(cands_)
            full_ = os.path.normpath(os.path.join(os.path.dirname(m['p']), e['path']))
            above_ = [m2 for m2 in manifests if m2 is not m and (os.path.dirname(m2['p']) == '' or full_.startswith(os.path.dirname(m2['p']) + '/'))
                      and len(os.path.dirname(m2['p'])) < len(os.path.dirname(m['p']))]
            if above_ and rng.random() < 0.7:
                m2 = rng.choice(above_)
                m2['entries'] = m2['entries'] + [{'tag': 'IGNORE', 'path': os.path.relpath(full_, os.path.dirname(m2['p']) or '.')}]
            else:
                m['entries'] = m['entries'] + [{'tag': 'IGNORE', 'path': e['path']}]
    # targeted prior state: one file listed in a sub-Manifest AND in a Manifest above it, the file
    # edited in place (same size), and only one of the two Manifests refreshed afterwards
    special_hashes = None
    if prior != 'absent' and rng.random() < 0.12:
        subs = [m for m in manifests if '/' in m['p'] and any(e.get('tag') in ('DATA', 'MISC', 'EBUILD') and 'hashes' in e for e in m['entries'])]
        if subs:
            child = rng.choice(subs)
            cdir = os.path.dirname(child['p'])
            ce = rng.choice([e for e in child['entries'] if e.get('tag') in ('DATA', 'MISC', 'EBUILD') and 'hashes' in e])
            full = cdir + '/' + ce['path']
            ancestors = [m for m in manifests if m is not child and (os.path.dirname(m['p']) == '' or cdir.startswith(os.path.dirname(m['p']) + '/'))
                         and os.path.basename(m['p']).startswith('Manifest')]
            if ancestors and ce['hashes']:
                par = rng.choice(ancestors)
                pdir = os.path.dirname(par['p'])
                rel = os.path.relpath(full, pdir or '.')
                hs = list(ce['hashes']) if rng.random() < 0.6 else list(ce['hashes'])[:1]
                par['entries'] = par['entries'] + [{'tag': ce['tag'], 'path': rel, 'hashes': hs}]
                fresh = par if rng.random() < 0.6 else child
                first_edits = first_edits + [{'m': 'flip', 'p': full, 'pos': rng.randrange(0, 30), 'bit': 1},
                                             {'m': 'manifest', 'p': fresh['p'], 'entries': fresh['entries']}]
                special_hashes = list(ce['hashes'])
    # a prior Manifest that lists a hidden file (gemato itself never writes such an entry, other tools do); the file
    # changes before some update
    hidden_listed = None
    if prior != 'absent' and manifests and rng.random() < cfg.get('p_hidden_listed', 0.1):
        m = rng.choice(manifests)
        md = os.path.dirname(m['p'])
        hp = (md + '/' if md else '') + rng.choice(['.settings', '.hidden-listed', '.keep'])
        if not any(t['p'] == hp for t in tree):
            tree = tree + [{'p': hp, 'k': 'file', 'c': GT.rand_content(rng)}]
            m['entries'] = m['entries'] + [{'tag': 'DATA', 'path': os.path.basename(hp), 'hashes': rng.choice(HASHSETS)}]
            hidden_listed = hp
    # targeted prior state: a sub-Manifest refreshed out of band (its parents keep the old MANIFEST entry) and a
    # sub-directory update somewhere else, in a directory whose entries live in one of those parents
    force_path = None
    force_pre_verify = False
    if prior != 'absent' and rng.random() < cfg.get('p_sibling_oob', 0.1):
        subs = [m for m in manifests if '/' in m['p'] and any(e.get('tag') in ('DATA', 'MISC', 'EBUILD') and 'hashes' in e for e in m['entries'])]
        if subs:
            sib = rng.choice(subs)
            sdir = os.path.dirname(sib['p'])
            fe = rng.choice([e for e in sib['entries'] if e.get('tag') in ('DATA', 'MISC', 'EBUILD') and 'hashes' in e])
            mdirs_ = set(os.path.dirname(m['p']) for m in manifests)
            cand = [d for d in info['dirs'] if d and not any(c.startswith('.') for c in d.split('/'))
                    and d not in mdirs_ and not GT.psw(d, sdir) and not GT.psw(sdir, d)]
            if cand and rng.random() < 0.5:
                force_path = rng.choice(cand)
                first_edits = first_edits + [{'m': 'rewrite', 'p': sdir + '/' + fe['path'], 'c': GT.rand_content(rng)},
                                             {'m': 'manifest', 'p': sib['p'], 'entries': sib['entries']},
                                             {'m': 'add', 'p': force_path + '/oob-new', 'k': 'file', 'c': GT.rand_content(rng)}]
            elif cand:
                # variant: the sibling's file is ALSO listed, with other hash names, in the Manifest that receives the
                # entries of the updated directory, and the loader verifies the tree before it updates
                force_path = rng.choice(cand)
                holders = [m for m in manifests if m is not sib and os.path.basename(m['p']).startswith('Manifest')
                           and GT.psw(force_path, os.path.dirname(m['p'])) and GT.psw(sdir, os.path.dirname(m['p']))]
                if holders:
                    holders.sort(key=lambda m_: -len(os.path.dirname(m_['p'])))
                    par = holders[0]
                    other = [h for h in G.SUPPORTED_HASHES if h not in fe['hashes']]
                    rng.shuffle(other)
                    rel = os.path.relpath(sdir + '/' + fe['path'], os.path.dirname(par['p']) or '.')
                    par['entries'] = par['entries'] + [{'tag': fe['tag'], 'path': rel, 'hashes': sorted(other[:rng.choice([1, 2])])}]
                    force_pre_verify = True
                first_edits = first_edits + [{'m': 'add', 'p': force_path + '/oob-new', 'k': 'file', 'c': GT.rand_content(rng)}]
    rounds = []
    nr = rng.choice([1, 1, 2, 2, 3, 4])
    for i in range(nr):
        eds = first_edits if i == 0 else gen_edits(rng, info, rng.choice([0, 1, 2, 3]))
        u = gen_update_opts(rng, info, prior if i == 0 else 'exact', allow_sub=cfg.get('allow_sub', True))
        if force_path is not None and i == 0:
            u['path'] = force_path
            u.pop('create', None)
            if force_pre_verify:
                u['api'] = 'lib'
                u['pre_verify'] = ''
        if special_hashes and i == 0:
            u['hashes'] = special_hashes      # the requested set equals the existing one: nothing else is dirty
            u.pop('force', None)
            u.pop('path', None)
        if i > 0 and cfg.get('p_reuse', 0.2) and rng.random() < cfg.get('p_reuse', 0.2):
            # the same loader object goes on after its save (a long-running caller): constructor options are those
            # of the previous round; only scope, force and last_mtime may differ
            pu = rounds[-1]['update']
            if pu.get('api') == 'lib' and not pu.get('wm_of'):
                for k in ('hashes', 'sort', 'watermark', 'format', 'profile', 'wm_of', 'create'):
                    u.pop(k, None)
                    if k in pu and k != 'create':
                        u[k] = pu[k]
                u['api'] = 'lib'
                u['reuse'] = True
        rounds.append({'edits': eds, 'update': u})
    if rng.random() < cfg.get('p_unlistable', 0.08):
        # an object that cannot be listed (named pipe, socket, a name that is not valid UTF-8) appears in a visible
        # directory: the update has to refuse, not to finish without it
        d_ = rng.choice(info['dirs'])
        if not any(c.startswith('.') for c in d_.split('/')):
            kind_ = rng.choice(['fifo', 'socket', 'badname'])
            p_ = (d_ + '/' if d_ else '') + ('caf\udce9.txt' if kind_ == 'badname' else 'odd-' + kind_)
            rnd = rng.choice(rounds)
            rnd['edits'] = list(rnd['edits']) + [{'m': 'add', 'p': p_, 'k': 'file' if kind_ == 'badname' else kind_, 'c': 'x'}]
    if hidden_listed is not None and rng.random() < 0.8:
        rnd = rng.choice(rounds)
        rnd['edits'] = list(rnd['edits']) + [{'m': 'rewrite', 'p': hidden_listed, 'c': GT.rand_content(rng) + ' changed'}]
    # a file that shares its name with a DIST entry of the same Manifest vanishes before some update
    twins = []
    for m in manifests:
        names = set(e['path'] for e in m['entries'] if e.get('tag') == 'DIST')
        for e in m['entries']:
            if e.get('tag') in ('DATA', 'MISC', 'EBUILD') and e.get('path') in names:
                twins.append(os.path.normpath(os.path.join(os.path.dirname(m['p']), e['path'])))
    if twins and rng.random() < 0.6:
        rnd = rng.choice(rounds)
        rnd['edits'] = list(rnd['edits']) + [{'m': 'delete', 'p': rng.choice(twins)}]
    if manifests and rng.random() < cfg.get('p_top_second_manifest', 0.05) and not any(t['p'].startswith('Manifest.') for t in tree) \
            and not any(m['p'] != 'Manifest' and os.path.dirname(m['p']) == '' for m in manifests):
        # a second, parseable file with a Manifest name beside the top-level Manifest, and a forced save whose watermark
        # lies above its size (d4e03d5: such a file used to be renamed onto the top-level Manifest)
        tree = tree + [{'p': 'Manifest.' + rng.choice(['gz', 'gz', 'bz2', 'xz']), 'k': 'file', 'c': ''}]
        u_ = rng.choice(rounds)['update']
        if not u_.get('reuse') and 'wm_of' not in u_:
            u_['watermark'] = 100000
            u_['force'] = True
            u_.pop('path', None)
            u_.pop('path2', None)
    if manifests and rng.random() < cfg.get('p_variant_sibling', 0.1):
        # an ordinary data file whose name is a sub-Manifest's name plus a compression suffix that no round of this
        # history uses (so that no save ever wants that name): it is nobody's Manifest and must stay where it is
        used = set(['gz'])
        for r_ in rounds:
            if r_['update'].get('format'):
                used.add(r_['update']['format'])
        free = [s_ for s_ in ('bz2', 'lzma', 'xz') if s_ not in used]
        subs_ = [m['p'] for m in manifests if os.path.dirname(m['p']) and os.path.basename(m['p']) == 'Manifest']
        if free and subs_:
            junk = rng.choice(subs_) + '.' + rng.choice(free)
            if junk not in [m['p'] for m in manifests] and not any(t['p'] == junk for t in tree):
                tree = tree + [{'p': junk, 'k': 'file', 'c': 'not a compressed stream, just a data file\n'}]
                if rng.random() < 0.6:
                    # ... and some round re-compresses the Manifest beside it
                    u_ = rng.choice(rounds)['update']
                    if not u_.get('reuse') and 'wm_of' not in u_:
                        u_['watermark'] = rng.choice([0, 1, 40])
                        u_['force'] = True
    if rng.random() < cfg.get('p_alike_valid', 0.06):
        # a data file that merely LOOKS like a Manifest - `Manifest.orig.gz`, `Manifest-2020.bz2`: none of the five Manifest
        # names, referenced by nothing - and whose bytes are a well-formed compressed Manifest (a backup copy, an empty one);
        # a new file arrives beside it and the update is forced: the look-alike stays a data file, untouched
        import base64, bz2, gzip, lzma
        vis = [d_ for d_ in info['dirs'] if d_ and not any(c.startswith('.') for c in d_.split('/'))]
        if vis:
            d_ = rng.choice(vis)
            nm_ = rng.choice(['Manifest.orig.gz', 'Manifest-2020.bz2', 'Manifest.old.xz', 'Manifest.bak.lzma', 'Manifest.1.gz'])
            txt_ = rng.choice(['', 'DATA zz-nothing 1\n', 'IGNORE zz-nothing\n']).encode()
            raw_ = {'gz': lambda b: gzip.compress(b, mtime=0), 'bz2': bz2.compress, 'xz': lambda b: lzma.compress(b, format=lzma.FORMAT_XZ),
                    'lzma': lambda b: lzma.compress(b, format=lzma.FORMAT_ALONE)}[nm_.rsplit('.', 1)[1]](txt_)
            if not any(t['p'] == d_ + '/' + nm_ for t in tree) and not any(m['p'] == d_ + '/' + nm_ for m in manifests):
                tree = tree + [{'p': d_ + '/' + nm_, 'k': 'file', 'b64': base64.b64encode(raw_).decode()}]
                rnd = rng.choice(rounds)
                rnd['edits'] = list(rnd['edits']) + [{'m': 'add', 'p': d_ + '/fresh-beside-lookalike', 'k': 'file', 'c': 'fresh'}]
                if not rnd['update'].get('reuse'):
                    rnd['update']['force'] = True
    # the targeted steps above may have changed the options of a round after a later round copied them for its reused
    # loader: a reused loader has the constructor options of the round that created it
    for i_ in range(1, len(rounds)):
        if rounds[i_]['update'].get('reuse'):
            for k in ('hashes', 'sort', 'watermark', 'format', 'profile'):
                rounds[i_]['update'].pop(k, None)
                if k in rounds[i_ - 1]['update']:
                    rounds[i_]['update'][k] = rounds[i_ - 1]['update'][k]
    return {'order_key': '%016x' % rng.getrandbits(64), 'top': 'Manifest', 'tree': tree,
            'chunks': rng.choice([None, None, None, 'mixed', 'tiny', 4096]),
            'manifests': manifests, 'rounds': rounds}
