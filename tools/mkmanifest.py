#!/venv/bin/python
"""Regenerate /verif/MANIFEST.json from tools/manifest_src.json (checks table) -- keeps it valid."""
import json, os, sys
V = os.path.dirname(os.path.dirname(os.path.abspath(__file__)))
src = json.load(open(os.path.join(V, 'tools', 'manifest_src.json')))
checks = []
for c in src['checks']:
    pid = c['id']
    checks.append({
        'property_id': pid,
        'quick_cmd': './check %s --tier quick' % pid,
        'thorough_cmd': './check %s --tier thorough' % pid,
        'evidence_file': 'evidence/%s.json' % pid,
        'replay_cmd_template': './check %s --replay {path}' % pid,
        'engine': 'sim',
        'level_claimed': {'category': c['level'], 'text': c['text'], 'design_ref': c.get('design_ref', 'DESIGN.md §5 ' + pid)},
        'level_note': c['note'],
        'technique': c['technique'],
    })
m = {
    'version': 1,
    'setup_cmd': './tools/setup.sh',
    'hooks': src['hooks'],
    'engines': [{'name': 'sim', 'path': 'sim/', 'serves_properties': [c['id'] for c in src['checks']],
                 'kind_free_text': 'deterministic simulation with fault injection: real gemato code run in-process against a seam that owns filesystem calls, enumeration order, clock, gpg peer and pool scheduling; seeded scenario search on 16 cores; JSON replay files; clause-preserving minimiser'}],
    'checks': checks,
    'not_applicable': src['not_applicable'],
    'notes': src['notes'],
}
json.dump(m, open(os.path.join(V, 'MANIFEST.json'), 'w'), indent=1)
