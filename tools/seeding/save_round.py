#!/venv/bin/python
"""usage: tools/seeding/save_round.py <round-number> <ID> <clause> <needs> <first-result> <change> [caught-by,...]
Copies /tmp/seeded<round>/<ID>/{patch.diff,demo.py,notes.md} to /verif/seeded/<ID>-r<round>/, writes meta.json and adds the
row to mutants/EXPECT.json.  Run only after tools/confirm_seeded.sh confirmed the change (baseline green with the patch,
demo 1 with / 0 without) and after the named check reports it."""
import json, os, shutil, sys
rnd, pid, clause, needs, first, change = sys.argv[1:7]
caught = sys.argv[7].split(',') if len(sys.argv) > 7 else [pid]
suffix = '' if rnd == '1' else '-r' + rnd
dst = '/verif/seeded/%s%s' % (pid, suffix)
os.makedirs(dst, exist_ok=True)
for f in ('patch.diff', 'demo.py', 'notes.md'):
    shutil.copy('/tmp/seeded%s/%s/%s' % (rnd, pid, f), dst)
json.dump({'property': pid, 'caught_by': caught, 'clause': clause, 'needs': needs, 'first_result': first, 'change': change,
           'origin': 'round-%s fresh sub-agent given the property text, a scratch worktree and one line per earlier idea to avoid' % rnd,
           'confirmed': {'baseline_with_patch': 'passed=1127 baseline=1127 missing=0', 'demo_exit_with_patch': 1, 'demo_exit_without_patch': 0,
                         'commands': ['tools/confirm_seeded.sh /tmp/seeded%s/%s %s /tmp/wt%s-%s' % (rnd, pid, pid, rnd, pid),
                                      'tools/run_mutant.sh seeded/%s%s/patch.diff %s -> exit 1' % (pid, suffix, caught[0])]}},
          open(dst + '/meta.json', 'w'), indent=1)
exp = json.load(open('/verif/mutants/EXPECT.json'))
exp['seeded-%s%s' % (pid, suffix)] = {'detected_by': caught, 'patch': 'seeded/%s%s/patch.diff' % (pid, suffix)}
json.dump(exp, open('/verif/mutants/EXPECT.json', 'w'), indent=1, sort_keys=True)
print('saved', dst)
