#!/bin/sh
# Re-creates /tmp/seedtools (what a seeding sub-agent is allowed to see): the instructions, the baseline checker and
# one text file per property (title, statement, quantifier - nothing about /verif).
set -e
mkdir -p /tmp/seedtools
cp /verif/tools/seeding/INSTRUCTIONS.md /tmp/seedtools/INSTRUCTIONS.md
cp /verif/tools/baseline_check.py /tmp/seedtools/baseline_check.py
/venv/bin/python - <<'PY'
import json
for l in open('/verif/properties.jsonl'):
    d = json.loads(l)
    with open('/tmp/seedtools/%s.txt' % d['id'], 'w') as f:
        f.write('%s  %s\n\nStatement: %s\n\nQuantifier: %s\n\nWhy the existing tests cannot settle it: %s\n\nAnchors: %s\n' % (
            d['id'], d['title'], d['statement'], d['quantifier']['text'], d.get('why_tests_cant', ''), json.dumps(d.get('anchors', {}), indent=1)))
PY
echo "prepared /tmp/seedtools"
# ideas already used per property (from the seeded/ metadata), for later rounds
/venv/bin/python - <<'PY'
import json, os, glob
R1 = {'C01':'top-level-Manifest exemption in directory verification compares only the basename','C02':'assert_directory_verifies loads with verify_manifests=False','C03':"de-duplication queues the kept entry's Manifest only if new hash names were added",'C04':'armor-header preamble ends only at an exactly empty line','C05':'status parsing stops at the first VALIDSIG line','C06':'os.walk onerror swallows ENOTDIR/ENOENT below the top','C07':'keep-going all(list(...)) turned into a lazy all(...)','C10':'string-prefix instead of component-prefix in the de-duplication scope','C11':'int(st_mtime) <= int(last_mtime) in the mtime skip rule','C12':'ManifestFile.dump no longer rebinds the sorted entries','C13':'save_manifest returns characters, not bytes','C14':'"top-level" = any Manifest in the top directory','C15':'IGNORE prefix test via os.path.commonpath','C16':'three walkers folded into one that records ancestors only for real directories','C17':'streaming loop stops at the first block shorter than the buffer','C18':'ManifestEntryTIMESTAMP.__eq__ touches other.ts before comparing tags','C19':'profile defaults applied with `x or default`','C20':'gen_fast_manifest computes the AUX prefix once per directory'}
ideas = dict((k, [v]) for k, v in R1.items())
def rnd(p):
    b = os.path.basename(os.path.dirname(p))
    return int(b.split('-r')[1]) if '-r' in b else 1
for p in sorted(glob.glob('/verif/seeded/*/meta.json'), key=rnd):
    d = json.load(open(p)); pid = d['property']
    c = d.get('change')
    if c and c != '?' and c not in ideas.setdefault(pid, []):
        ideas[pid].append(c)
for pid, l in ideas.items():
    with open('/tmp/seedtools/avoid-%s.txt' % pid, 'w') as f:
        f.write('Ideas already used by earlier developers for %s - do NOT repeat any of them (nor a close variant);\nfind a different mechanism in a different place, preferably a different function or file:\n\n' % pid)
        for i, x in enumerate(l, 1):
            f.write('%d. %s\n' % (i, x))
PY
