#!/bin/sh
# Re-creates /tmp/seedtools (what a seeding sub-agent is allowed to see): the instructions, the baseline checker and
# one text file per property (title, statement, quantifier - nothing about /verif).
set -e
mkdir -p /tmp/seedtools
cp /verif/tools/seeding/INSTRUCTIONS.md /tmp/seedtools/INSTRUCTIONS.md
cp /verif/tools/baseline_check.py /tmp/seedtools/baseline_check.py
/venv/bin/python - <<'PY'
import json
for l in open('/verif/properties.jsonl'):
    d = json.loads(l)
    with open('/tmp/seedtools/%s.txt' % d['id'], 'w') as f:
        f.write('%s  %s\n\nStatement: %s\n\nQuantifier: %s\n\nWhy the existing tests cannot settle it: %s\n\nAnchors: %s\n' % (
            d['id'], d['title'], d['statement'], d['quantifier']['text'], d.get('why_tests_cant', ''), json.dumps(d.get('anchors', {}), indent=1)))
PY
echo "prepared /tmp/seedtools"
# ideas already used per property (from the seeded/ metadata), for later rounds
/venv/bin/python - <<'PY'
import json, os, glob
for p in sorted(glob.glob('/verif/seeded/*/meta.json')):
    d = json.load(open(p)); pid = d['property']
    with open('/tmp/seedtools/avoid-%s.txt' % pid, 'a') as f:
        f.write('- %s\n' % (d.get('change') or os.path.basename(os.path.dirname(p))))
PY
