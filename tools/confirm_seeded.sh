#!/bin/sh
# usage: tools/confirm_seeded.sh <seed-dir> <property> <worktree>
# Confirms a sub-agent's seeded change in its scratch worktree (suite baseline with the patch, demo with and
# without the patch) and runs the property's quick check against a scratch copy of /repo with the patch.
SRC="$1"; PROP="$2"; WT="$3"
set -e
cd "$WT" && git checkout -q -- . && git apply "$SRC/patch.diff"
B=$(/venv/bin/python /verif/tools/baseline_check.py "$WT" 2>/dev/null | head -1)
cp "$SRC/demo.py" "$WT/demo.py"
set +e
PYTHONPATH="$WT" timeout 600 /venv/bin/python demo.py > /tmp/demo_with.txt 2>&1; WITH=$?
git checkout -q -- .
PYTHONPATH="$WT" timeout 600 /venv/bin/python demo.py > /tmp/demo_without.txt 2>&1; WITHOUT=$?
rm -f demo.py
echo "baseline with patch: $B ; demo exit with patch=$WITH without=$WITHOUT"
cd /verif
tools/run_mutant.sh "$SRC/patch.diff" "$PROP" 2>&1 | grep -v "^KNOWN" | tail -4
