#!/bin/sh
# usage: tools/run_mutant.sh <patch> <property> [check args...]
# copies /repo (working tree, tracked files) to a scratch dir, applies the patch,
# runs the property check against it, removes the copy.  Prints exit status.
set -e
PATCH="$(realpath "$1")"; PROP="$2"; shift 2
D="$(mktemp -d /tmp/mut.XXXXXX)"
trap 'rm -rf "$D"' EXIT
(cd /repo && git ls-files -z | xargs -0 cp --parents -t "$D")
(cd "$D" && patch -p1 -s < "$PATCH")
if [ -n "$RUN_SUITE" ]; then
  /verif/tools/baseline_check.py "$D" | head -3
fi
set +e
VERIF_REPO="$D" /verif/check "$PROP" "$@" > "$D/out.txt" 2>&1
rc=$?
grep -E "^(violated clause|VIOLATION|HARNESS|OK|KNOWN)" "$D/out.txt" | head -8
echo "mutant $(basename "$PATCH") on $PROP: exit=$rc"
exit 0
