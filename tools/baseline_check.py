#!/venv/bin/python
"""Run the pinned suite in a repo dir (default /repo) and compare with BASELINE.json stable_pass."""
import json, subprocess, sys, os, tempfile
import xml.etree.ElementTree as ET
repo = sys.argv[1] if len(sys.argv) > 1 else '/repo'
base = json.load(open('/root/.vp/BASELINE.json'))
fd, x = tempfile.mkstemp(suffix='.xml'); os.close(fd)
env = dict(os.environ); env.pop('GEMATO_VERIF_SIM', None); env.pop('PYTHONPATH', None)
p = subprocess.run(['/venv/bin/python', '-m', 'pytest', '-ra', '-q', '-p', 'no:cacheprovider', '--timeout=900',
                    '--continue-on-collection-errors', '--junitxml=' + x], cwd=repo, env=env, capture_output=True, text=True)
passed = set()
for tc in ET.parse(x).getroot().iter('testcase'):
    if not list(tc):
        passed.add('%s::%s' % (tc.get('classname'), tc.get('name')))
os.unlink(x)
want = set(base['stable_pass'])
missing = sorted(want - passed)
print('passed=%d baseline=%d missing=%d' % (len(passed), len(want), len(missing)))
for m in missing[:20]:
    print('  MISSING', m)
print(p.stdout.strip().splitlines()[-1])
sys.exit(1 if missing else 0)
