#!/venv/bin/python
"""usage: tools/mutants_parallel.py [workers=5] [jobs=3] [seed=0]
Same table as `./check selftest-mutants` (mutants/EXPECT.json), but several mutants at a time, each check with a few
worker processes, one result line as soon as a row is done.  Exit 0 iff every row is as expected."""
import concurrent.futures as cf
import json, os, shutil, subprocess, sys, tempfile
V = os.path.dirname(os.path.dirname(os.path.abspath(__file__)))
workers = int(sys.argv[1]) if len(sys.argv) > 1 else 5
jobs = sys.argv[2] if len(sys.argv) > 2 else '3'
seed = sys.argv[3] if len(sys.argv) > 3 else '0'
expect = json.load(open(os.path.join(V, 'mutants', 'EXPECT.json')))
files = [f.decode() for f in subprocess.run(['git', '-C', '/repo', 'ls-files', '-z'], capture_output=True, check=True).stdout.split(b'\0') if f]


def one(item):
    name, e = item
    patch = os.path.join(V, e.get('patch', os.path.join('mutants', name)))
    d = tempfile.mkdtemp(prefix='vmut.')
    out = []
    try:
        for f in files:
            os.makedirs(os.path.dirname(os.path.join(d, f)), exist_ok=True)
            shutil.copy2(os.path.join('/repo', f), os.path.join(d, f))
        if subprocess.run(['patch', '-p1', '-s', '-i', patch], cwd=d, capture_output=True).returncode != 0 and \
                subprocess.run(['git', 'apply', patch], cwd=d, capture_output=True).returncode != 0:
            return [(name, 'PATCH-DOES-NOT-APPLY', False)]
        for prop in e['detected_by']:
            q = subprocess.run([os.path.join(V, 'check'), prop, '--tier', 'quick', '--jobs', jobs],
                               env=dict(os.environ, VERIF_REPO=d, VERIF_SEED=seed, VERIF_EVIDENCE_DIR=d), capture_output=True, text=True, timeout=3600)
            got = q.returncode
            want = 0 if e.get('equivalent') else 1
            if want == 1 and got == 2 and 'VIOLATION property=' in q.stdout:
                got = 1
            out.append((name, '%s exit=%d want=%d' % (prop, got, want), got == want))
    finally:
        shutil.rmtree(d, ignore_errors=True)
    return out


bad = 0
n = 0
with cf.ThreadPoolExecutor(workers) as ex:
    for rows in ex.map(one, sorted(expect.items())):
        for name, txt, ok in rows:
            n += 1
            if not ok:
                bad += 1
            print('%s %-40s %s' % ('ok ' if ok else 'BAD', name, txt), flush=True)
print('rows=%d unexpected=%d' % (n, bad), flush=True)
sys.exit(0 if bad == 0 else 2)
