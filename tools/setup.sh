#!/bin/sh
# nothing to build or download: the simulator is plain Python run by /venv/bin/python
set -e
test -x /venv/bin/python
command -v gpg >/dev/null
command -v gpgconf >/dev/null
/venv/bin/python -c "import sys; sys.path.insert(0, '${VERIF_REPO:-/repo}'); import gemato.cli"
mkdir -p "$(dirname "$0")/../evidence" "$(dirname "$0")/../replays"
echo setup ok
